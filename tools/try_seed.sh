#!/bin/sh
# usage: tools/try_seed.sh <patch.diff> <ID> [more IDs...]   -- apply a seeded change to /repo, run checks, revert
P="$1"; shift
cd /repo || exit 2
if ! git diff --quiet; then echo "repo dirty"; exit 2; fi
if ! git apply "$P" 2>/dev/null; then
  patch -p1 -F3 -s --no-backup-if-mismatch < "$P" || { echo "patch does not apply"; git checkout -- .; exit 2; }
fi
for id in "$@"; do
  (cd /verif && ./check "$id" 2>&1 | grep -E "^(violation|VIOLATION|OK|ENGINE|KNOWN)" | cut -c1-400)
done
git -C /repo checkout -- .
git -C /repo clean -fdq -- src c-api
