#!/bin/sh
# usage: tools/try_seed.sh <patch.diff> <ID> [more IDs...]   -- apply a seeded change to /repo, run checks, revert
P="$1"; shift
cd /repo || exit 2
if ! git diff --quiet; then echo "repo dirty"; exit 2; fi
git apply "$P" || { echo "patch does not apply"; exit 2; }
for id in "$@"; do
  (cd /verif && ./check "$id" 2>&1 | grep -E "^(violation|VIOLATION|OK|ENGINE|KNOWN)" | cut -c1-400)
done
git -C /repo checkout -- . 
