#!/bin/bash
# usage: confirm_capi_seed.sh <seeddir> <name> <demo.rs>   -- C API seeds: demo runs in a harness crate compiling c-api/src against the worktree
SD="$1"; NAME="$2"; DEMO="$3"
WT=/tmp/w/confirm_wt_$NAME
TG=${CONFIRM_TGT:-/tmp/w/confirm_tgt}
LOG=/tmp/w/confirm_$NAME.log
exec >"$LOG" 2>&1
export CARGO_NET_OFFLINE=true CARGO_TARGET_DIR=$TG
git -C /repo worktree remove --force $WT 2>/dev/null
git -C /repo worktree add --detach $WT HEAD >/dev/null 2>&1 || { echo "RESULT $NAME worktree-failed"; exit 1; }
cd $WT
H=$WT/capi_harness
mkdir -p $H/tests $H/src
cat > $H/Cargo.toml <<EOT
[package]
name = "lol_html_c_api"
version = "0.0.0"
edition = "2024"
[features]
default = ["capi"]
capi = []
[lib]
name = "lolhtml"
path = "$WT/c-api/src/lib.rs"
crate-type = ["rlib"]
[dependencies]
encoding_rs = "0.8.35"
lol_html = { path = "$WT" }
libc = "0"
thiserror = "2"
[workspace]
EOT
cp /repo/Cargo.lock $H/Cargo.lock
cp $DEMO $H/tests/
T=$(basename $DEMO .rs)
echo "== demo on unchanged tree"
(cd $H && cargo test --offline --test $T > out_base.txt 2>&1); RB=$?
tail -5 $H/out_base.txt
git apply $SD/patch.diff 2>/dev/null || patch -p1 -F3 -s --no-backup-if-mismatch < $SD/patch.diff || { echo "RESULT $NAME patch-does-not-apply"; cd /; git -C /repo worktree remove --force $WT; exit 1; }
echo "== demo with change"
(cd $H && cargo test --offline --test $T > out_mut.txt 2>&1); RM=$?
tail -5 $H/out_mut.txt
echo "== suite with change"
cargo test --workspace --no-fail-fast --offline --lib > out_suite.txt 2>&1; RS=$?
NP=$(grep -E "^test result" out_suite.txt | head -1 | sed -E 's/.* ([0-9]+) passed.*/\1/')
echo "RESULT $NAME base_demo_rc=$RB mutated_demo_rc=$RM suite_rc=$RS suite_passed=$NP"
cd /
git -C /repo worktree remove --force $WT
