#!/usr/bin/env python3
"""usage: gen_round.py <round-number>   -- writes /tmp/seed/<ID>r<N>.prompt.txt for all 18 properties from the
previous round's prompt (which already lists the earlier known changes) + the previous round's entries of tools/seeding/known.py"""
import os, re, sys
HERE = os.path.dirname(os.path.abspath(__file__))
sys.path.insert(0, HERE)
from known import BY_ROUND
n = int(sys.argv[1])
for i in range(1, 19):
    pid = "C%02d" % i
    prev = open("/tmp/seed/%sr%d.prompt.txt" % (pid, n - 1)).read()
    prev = prev.replace("%sr%d" % (pid, n - 1), "%sr%d" % (pid, n))
    extra = "".join(" - %s\n" % k for k in BY_ROUND.get(n - 1, {}).get(pid, []))
    m = re.search(r"(IMPORTANT: .* changes for this property are already known.*?\n)((?: - .*\n)+)", prev)
    if not m:
        raise SystemExit("no known-list in previous prompt of " + pid)
    new = prev[:m.end(2)] + extra + prev[m.end(2):]
    new = new.replace("two changes for this property are already known", "several changes for this property are already known")
    open("/tmp/seed/%sr%d.prompt.txt" % (pid, n), "w").write(new)
    print(pid, "ok", len(new))
