#!/usr/bin/env python3
"""Regenerate seeded/MATRIX.md from the seeds' meta.json files (as tools/seed_matrix.py does at the end of a run)
and print a summary: seeds, detected by any check, detected by the check of the property they break."""
import glob, json, os
HERE = os.path.dirname(os.path.dirname(os.path.abspath(__file__)))
lines = ["# Seeded changes vs. checks", "", "| seed | breaks | files | detected by |", "|---|---|---|---|"]
n = anyd = own = 0
missing = []
for d in sorted(glob.glob(os.path.join(HERE, "seeded", "C*_*"))):
    m = json.load(open(os.path.join(d, "meta.json")))
    det = m.get("detected_by") or {}
    n += 1
    anyd += bool(det)
    own += m["breaks_property"] in det
    if m["breaks_property"] not in det:
        missing.append(m["id"])
    ds = "; ".join("%s: %s" % (p, ", ".join(r)) for p, r in sorted(det.items())) or "**not detected**"
    lines.append("| %s | %s | %s | %s |" % (m["id"], m["breaks_property"], ", ".join(m["files_changed"]), ds))
lines += ["", "Summary: %d seeds; %d reported by at least one check; %d reported by the check of the property they were written against." % (n, anyd, own)]
if missing:
    lines.append("Not reported by their own property's check: " + ", ".join(missing))
open(os.path.join(HERE, "seeded", "MATRIX.md"), "w").write("\n".join(lines) + "\n")
print(lines[-2] if missing else lines[-1])
if missing:
    print(lines[-1])
