#!/usr/bin/env python3
"""(Re)generate spec/panic_sites.json from /repo's current tree, keeping existing reasons.
New entries get the category reason; REVIEW them before committing."""
import json, os, sys
HERE = os.path.dirname(os.path.dirname(os.path.abspath(__file__)))
sys.path.insert(0, HERE)
from vlib.mirlib import load
from vlib.props.c15 import panic_sites, PANIC_TABLE

CATEGORY = [
    ("assert:overflow", "index/offset arithmetic on positions inside the current chunk (bounded by input length, far below usize::MAX)"),
    ("assert:bounds", "index derived from a length check or a compiled address range in the same function"),
    ("assert:div_zero", "divisor is a non-zero constant or checked"),
    ("assert:rem_zero", "divisor is a non-zero constant or checked"),
    ("call:panicking::panic_fmt", "assert!/debug_assert!/unreachable! documenting an internal invariant or the documented poisoned-use panic"),
    ("call:panicking::panic", "assert!/debug_assert! documenting an internal invariant"),
    ("call:panicking::assert_failed", "assert_eq!/debug_assert_eq! documenting an internal invariant"),
    ("call:", "operates on a value whose shape was established in the same function"),
]

def main():
    old = {}
    if os.path.exists(PANIC_TABLE):
        for e in json.load(open(PANIC_TABLE))["sites"]:
            old[(e["fn"], e["kind"])] = e
    sites = panic_sites(load())
    out = []
    for (fn, kind), n in sorted(sites.items()):
        e = old.get((fn, kind))
        why = e["why"] if e else next(w for p, w in CATEGORY if kind.startswith(p))
        ent = {"fn": fn, "kind": kind, "count": n, "why": why}
        if e and e.get("finding"):
            ent["finding"] = e["finding"]
        out.append(ent)
    json.dump({"_comment": "reviewed panic-capable constructs of non-test code (debug profile MIR); key = (function, kind); count = allowed occurrences", "sites": out}, open(PANIC_TABLE, "w"), indent=0)
    print(len(out), "entries")
main()
