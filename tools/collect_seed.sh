#!/bin/bash
# usage: collect_seed.sh <PROP> <round-dir> <letterA> <letterB>   e.g. collect_seed.sh C01 /tmp/seed/C01r2 c d
# copies _out/a,_out/b to /tmp/seedout/<PROP>/<letter>, removes the worktree, confirms both (sequentially)
P=$1; WT=$2; LA=$3; LB=$4
mkdir -p /tmp/seedout/$P
rm -rf /tmp/seedout/$P/$LA /tmp/seedout/$P/$LB
[ -d $WT/_out/a ] && cp -r $WT/_out/a /tmp/seedout/$P/$LA
[ -d $WT/_out/b ] && cp -r $WT/_out/b /tmp/seedout/$P/$LB
git -C /repo worktree remove --force $WT
for L in $LA $LB; do
  [ -d /tmp/seedout/$P/$L ] && /verif/tools/confirm_seed.sh /tmp/seedout/$P/$L ${P}_$L
  grep RESULT /tmp/w/confirm_${P}_$L.log
done
