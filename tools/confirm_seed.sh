#!/bin/bash
# usage: confirm_seed.sh <seeddir> <name>   (seeddir contains patch.diff + demo *.rs [+ demo.diff])
# Confirms in a scratch worktree of /repo HEAD: demo passes without the change, fails with it, suite passes with it.
SD="$1"; NAME="$2"
WT=/tmp/w/confirm_wt_$NAME
TG=${CONFIRM_TGT:-/tmp/w/confirm_tgt}
LOG=/tmp/w/confirm_$NAME.log
exec >"$LOG" 2>&1
export CARGO_NET_OFFLINE=true CARGO_TARGET_DIR=$TG
git -C /repo worktree remove --force $WT 2>/dev/null
git -C /repo worktree add --detach $WT HEAD >/dev/null 2>&1 || { echo "RESULT $NAME worktree-failed"; exit 1; }
cd $WT
DEMOS=$(ls $SD/*.rs 2>/dev/null)
for d in $DEMOS; do cp $d tests/; done
if [ -f $SD/demo.diff ]; then git apply $SD/demo.diff || echo "demo.diff failed to apply"; fi
TESTARGS=""
for d in $DEMOS; do TESTARGS="$TESTARGS --test $(basename $d .rs)"; done
if [ -z "$TESTARGS" ]; then TESTARGS="--lib seed_demo"; fi
echo "== demo on unchanged tree"
cargo test --offline $TESTARGS > out_base.txt 2>&1; RB=$?
tail -5 out_base.txt
git apply $SD/patch.diff 2>/dev/null || patch -p1 -F3 -s --no-backup-if-mismatch < $SD/patch.diff || { echo "RESULT $NAME patch-does-not-apply"; cd /; git -C /repo worktree remove --force $WT; exit 1; }
echo "== demo with change"
cargo test --offline $TESTARGS > out_mut.txt 2>&1; RM=$?
tail -5 out_mut.txt
echo "== suite with change"
cargo test --workspace --no-fail-fast --offline --lib > out_suite.txt 2>&1; RS=$?
grep -E "^test result" out_suite.txt
NP=$(grep -E "^test result" out_suite.txt | head -1 | sed -E 's/.* ([0-9]+) passed.*/\1/')
echo "RESULT $NAME base_demo_rc=$RB mutated_demo_rc=$RM suite_rc=$RS suite_passed=$NP"
cd /
git -C /repo worktree remove --force $WT
