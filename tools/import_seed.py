#!/usr/bin/env python3
"""Import a confirmed seeded change into /verif/seeded/<PROP>_<v>/ (patch.diff, demo, meta.json)."""
import glob, json, os, re, shutil, sys
HERE = os.path.dirname(os.path.dirname(os.path.abspath(__file__)))
def main():
    src_root = "/tmp/seedout"
    for log in sorted(glob.glob("/tmp/w/confirm_*.log")):
        name = os.path.basename(log)[len("confirm_"):-4]
        txt = open(log).read()
        m = re.search(r"RESULT %s base_demo_rc=(\d+) mutated_demo_rc=(\d+) suite_rc=(\d+) suite_passed=(\d*)" % re.escape(name), txt)
        if not m:
            continue
        base, mut, suite, passed = m.group(1), m.group(2), m.group(3), m.group(4)
        ok = base == "0" and mut != "0" and suite == "0" and passed == "182"
        prop, v = name.split("_")
        sd = os.path.join(src_root, prop, v)
        dst = os.path.join(HERE, "seeded", name)
        if not ok:
            print("NOT CONFIRMED", name, m.group(0))
            continue
        if os.path.exists(os.path.join(dst, "meta.json")):
            continue
        os.makedirs(dst, exist_ok=True)
        for f in os.listdir(sd):
            if f.endswith((".diff", ".rs", ".md", ".toml")):
                shutil.copy(os.path.join(sd, f), os.path.join(dst, f))
        notes = ""
        np_ = os.path.join(sd, "notes.md")
        if os.path.exists(np_):
            notes = open(np_).read()
        needs = ""
        mm = re.search(r"(?is)(conditions?|needs?|manifest)[^\n]*\n(.{0,900})", notes)
        if mm:
            needs = mm.group(0).strip()[:900]
        files = sorted(set(re.findall(r"^\+\+\+ b/(\S+)", open(os.path.join(sd, "patch.diff")).read(), re.M)))
        meta = {
            "id": name,
            "breaks_property": prop,
            "files_changed": files,
            "needs_to_manifest": needs or "see notes.md",
            "produced_by": "independent sub-agent given only the property text and a scratch worktree",
            "confirmed": {
                "how": "tools/confirm_seed.sh in a scratch worktree of /repo HEAD: demo on unchanged tree, demo with change, `cargo test --workspace --no-fail-fast --offline --lib` with change",
                "demo_unchanged_exit": int(base), "demo_with_change_exit": int(mut), "suite_with_change_exit": int(suite), "suite_tests_passed_with_change": int(passed),
            },
            "detected_by": None,
        }
        json.dump(meta, open(os.path.join(dst, "meta.json"), "w"), indent=1)
        print("imported", name)
main()
