#!/usr/bin/env python3
"""Generate /verif/MANIFEST.json from the table below (kept in one place so it stays valid)."""
import json, os, sys
HERE = os.path.dirname(os.path.dirname(os.path.abspath(__file__)))

NOTE = ("Static analysis only: the check decides structural rules (necessary conditions of the property) on /repo's current source "
        "- macro-expanded syntax tree (rustc -Zunpretty=expanded + syn), MIR facts from a rustc_private driver, the tokenizer automaton "
        "extracted from the expanded StateMachine trait. It does not execute lol-html. Trusted base: rustc nightly front-end, syn, the "
        "hand-written reference tables under /verif/spec, the rule code (self-tested on seeded breaks). ")

CHECKS = {
 "C01": dict(tech="CFG dominance / must-pass-through rules over MIR; EOF-leaf fix-point over the extracted tokenizer automaton; who-may-write rules; finite-domain decision table of the consumed-count functions; constructor discipline of the encoding type; control dependence of the ambiguity guard on `strict`",
      text="Decides the structural conditions that make lexemes and raw gaps tile every chunk exactly once (lexeme construction and the writers of lexeme_start, end-of-input emission in all 65 states, emit/commit/flush ordering on every CFG path of the dispatcher and of write()/end(), raw-first serialisation and write-implies-invalidate). Universal over inputs/chunkings because the rules hold on every path of the automaton/CFG; it does not decide byte equality of decode/encode of captured text.",
      ref="DESIGN.md §3 C01"),
 "C09": dict(tech="typestate/dataflow over the tokenizer automaton extracted from the macro-expanded state machine (all paths), with action effects read from the TagScanner impl; complete decision tables of RequestLexeme feedback in foreign content; control dependence of end-tag lexeme requests on disabled emission",
      text="Decides the hold-back clauses: text released at end of chunk in the six text states, the tag-start mark never live on a cycle nor at text entry / token emission, look-ahead hold-back bounded, consumed-count table of the scanner. Holds for every input because it holds on every path of the finite automaton. Does not decide schedule-independence of pending(k) as a relation between runs.",
      ref="DESIGN.md §3 C09"),
 "C11": dict(tech="CFG path rules (dominance, must-pass-through, operand identity) over the MIR of TransformStream::write/end and the dispatcher",
      text="Decides on every CFG path that each Err exit is a bail-out site, that handlers run before the raw flush and exactly at those sites, that the flushed operands are the ones that make no byte lost/duplicated, that commit follows success, and that the two flags are independent. Exhaustive over paths of those functions; the byte equality at run time for each failure index is not decided.",
      ref="DESIGN.md §3 C11"),
 "C12": dict(tech="who-may-call + dominance rules over every sink/output-handler call site in MIR; non-emptiness proofs per site; poisoning guard path rule; dropped-Result scan over all crate error types; reachability with the Ok edge removed (first handler error stops dispatch)",
      text="Decides: encoding announced before any chunk and at every switch; the zero-length chunk emitted exactly once, last, only after handle_end succeeded; every other value handed to the sink is provably non-empty (constant, dominated by an emptiness test, forwarding, or a reviewed table entry); every Err of write/end poisons and poisoned use panics before reaching the stream; no Drop emits. Prefix relation between runs is not decided.",
      ref="DESIGN.md §3 C12"),
 "C02": dict(tech="end-of-chunk leaf rules over the extracted automaton; type-driven completeness of Align impls; CFG dominance rules (flush before scope change, decoder fast-path guard); finite-domain decision table of the consumed-count functions; who-may-call rule for BOM-handling decoders",
      text="Decides the mechanisms that make chunk boundaries invisible: no state decides on a truncated look-ahead (all 65 states, every matched prefix), every stored range is re-based (type-driven over the ADTs), break_on_end_of_input re-bases the cursor with the reported count, pending text is flushed before scope can change, the decoder's fast path is never taken while a split character is pending. Equality of outputs between two schedules as such is not decided.",
      ref="DESIGN.md §3 C02"),
 "C03": dict(tech="dataflow of the text type over the extracted automaton; finite-domain abstract interpretation of the tag predicates and of the ambiguity guard compared with tables transcribed from the HTML specification; lockstep product exploration of the extracted automaton against a WHATWG reference model; complete decision tables of the tree-builder simulator in foreign content; control dependence of namespace entry on the self-closing flag",
      text="Decides: every tag emission is followed by the dynamic text state and every literal transition into a text state is type-consistent (all paths of the automaton); the complete decision tables (all Tag variants x states) of the text-mode table, foreign-content break-out list, integration points and of AmbiguityGuard equal the specification-derived reference; strict only gates the guard; 'appropriate end tag' compares against a hash recorded for start tags only. Token-boundary equivalence with the WHATWG tokenizer on all inputs is decided only as far as these clauses reach.",
      ref="DESIGN.md §3 C03"),
 "C06": dict(tech="type-driven bookmark completeness; CFG dominance rules on TagScanner::finish_tag_name and the dispatcher's hint-flag protocol; who-may-call rule for tree-builder feedback; call-sequence rules for the VM's recovery functions; order rule 'VM told before the stop test' on the dispatcher CFG",
      text="Decides the hand-over between tag scanner and lexer: every bookmark field captured and restored, sticky per-tag scratch reset on every continuing exit, the got_flags_from_hint protocol, feedback requested once per tag. Equality of event logs under two handler sets is a relation between runs and is not decided.",
      ref="DESIGN.md §3 C06"),
 "C13": dict(tech="compile_fail witnesses with compiling twins (type-level); who-may-call rules for BOM-sniffing decoders and the write-once shared encoding; CFG placement of the encoding switch; dominance of every from_utf8 by an `encoding == UTF_8` test; control dependence of the write-once encoding flag on Some(charset)",
      text="Decides: only ASCII-compatible encodings can be configured (type-level, proved by the compiler on witnesses), the encoding can change at most once and is applied right after the meta token with the sink notified, inserted &str bytes are routed through the encoder, no BOM-sniffing decode entry point touches document fragments. Decoder arithmetic at split characters is encoding_rs behaviour and not decided.",
      ref="DESIGN.md §3 C13"),
 "C14": dict(tech="operand-identity and dominance rules over MIR for every place a document offset is added, advanced or remembered; type-driven Align completeness; provenance (atom) analysis of the value start and its presence marker; operand-shape rule 'lengths are source byte counts'",
      text="Decides the offset-carrying clauses: lexeme/attribute locations add the document offset exactly once, the offset advances only in Parser::parse by the reported count, modified tokens keep their length, text-chunk locations follow the contiguity protocol in the decoder. That encoding_rs read counts are right is assumed.",
      ref="DESIGN.md §3 C14"),
 "C15": dict(tech="progress analysis of the automaton per input symbol; must-typestate of action preconditions; inventory of panic-capable MIR sites against a reviewed table with re-checked guard witnesses; call-graph cycle detection; generic guard analysis (real dominating guards sharing operand provenance, upper-bound tests for indices) auto-discharging unreviewed sites",
      text="Structural part only: the tokenizer always makes progress, actions that raise internal errors are never reachable without their precondition, every panic-capable construct in non-test code is accounted for (new ones are reported), recursion is limited to reviewed cycles. It does not prove absence of panics for all inputs; two debug-assertion panics reachable from public inputs are recorded as known findings.",
      ref="DESIGN.md §3 C15"),
 "C16": dict(tech="may-typestate of the attribute-building actions over all automaton paths; lookup/edit discipline and getter routing over MIR; lint for byte-wise case folding of encoded names; complete decision table of the stack directive; comparison-shape rule for the namespace depth test",
      text="Decides: attributes are opened, named, valued and closed in protocol order on every path and a tag is emitted only with no attribute open; lookups lower-case the query, return the first match, see edits, removal removes all duplicates; getters route to the right decoder; the reported namespace is the one the tag was processed in. Byte-wise folding of multi-byte encoded names is a known finding. Exact closing-quote arithmetic is not decided.",
      ref="DESIGN.md §3 C16"),
 "C10": dict(tech="charge-dominates-grow dominance rules with operand identity over MIR; error-discipline rule over every Result carrying MemoryLimitExceededError; type-driven inventory of growable containers; over-approximate call graph + growth-site analysis classifying every container field (charged / no growth reachable from write-end / bounded / token); comparison-shape rule for the retained-data flag",
      text="Decides the accounting clauses: both limited containers charge the limiter (with the same operands) before every reservation and grow only under a reservation or a sufficient-capacity branch; no memory-limit error is dropped or re-labelled; the limiter compares after adding; one limiter is shared by the VM stack and the parsing buffer; every growable container field is classified (charged / configuration-bounded / token-bounded / finding). Containers that grow with the document without being charged are recorded as known findings. Monotonicity in M is a relation between runs and is not decided.",
      ref="DESIGN.md §3 C10"),
 "C18": dict(tech="absence-of-shared-state scans (statics with Freeze/thread_local/mut classification from rustc, unsafe Send/Sync impls, lazy globals, hash iteration) over both crates; compile_fail Send witnesses with compiling twins",
      text="Decides determinism/isolation through its cause: no static of either crate is mutable or interior-mutable, the only thread-local is the C API's LAST_ERROR accessed through try_with by two functions, sharing objects are created per rewriter, hash iteration is order-insensitive, and Send-ness is proved by the compiler on witnesses. Equality of concurrent and sequential runs as such is not decided.",
      ref="DESIGN.md §3 C18"),
 "C04": dict(tech="variant-set agreement between the selector validator and the translator (expanded syntax tree); negation-over-conjunction soundness condition; stack/counter maintenance order and the three-stage matching pipeline as MIR call-sequence rules; complete decision table of the stack directive (namespace x tag) by finite-domain abstract interpretation; combinator / nth routing agreement across AST builder, compiler and VM (field flow); absolute-index lint over iterator chains",
      text="Structural clauses only: everything the validator accepts has a translation, the six attribute operators map to six matcher methods, names are folded on both sides, the open-element stack and sibling counters are maintained in the required order, the void/self-closing directive table, and every start tag runs all three matching stages including after an attribute bail-out. :not() over a compound / a list under double negation is a known finding (F2). The compiled program's equivalence with CSS semantics for all selector sets and documents is not decided, nor is the arithmetic of an+b.",
      ref="DESIGN.md §3 C04"),
 "C05": dict(tech="syntax-tree rules on the handler bookkeeping (balance and independence of activation, kind/flag/token table across four functions) and MIR ordering rules; type-driven bookmark completeness; control dependence and who-may-write rule for the can-have-content flag",
      text="Decides the bookkeeping clauses: the handler vectors activated for a matched element's content are exactly those deactivated when it closes, each independently; one table relates handler kind, capture flag and token variant in all four places; selector handlers are registered before document handlers and iterated in order; element/end-tag/end handlers are one-shot; sticky scanner scratch cannot turn a start tag into an end-tag hint. Exactly-once delivery over all open/close sequences depends on the VM's behaviour and is not decided.",
      ref="DESIGN.md §3 C05"),
 "C07": dict(tech="sibling cross-check of 28 token mutation methods and a documented-table check of the Element operations on the expanded syntax tree; serialisation-order and emission-gate rules; complete decision table of void / self-closing handling; attribute lookup discipline over MIR",
      text="Decides that each API operation edits the documented place (which list, which end), that streaming twins differ only in the chunk constructor, that mutated tokens serialise as before/(self|replacement)/after, that element-level end-tag edits are applied before user end-tag handlers, that removal of an attribute removes all duplicates, and that removed content is gated by emission_enabled. That arbitrary compositions equal the reference edit is not decided.",
      ref="DESIGN.md §3 C07"),
 "C08": dict(tech="writer/reader agreement as language inclusions: reject/escape byte sets read from the source vs. the tokenizer automaton over all 256 bytes; DFA inclusion (product construction) for comment text; constructor discipline of the encoding type; must-not-reach-Err rule for raw-byte invalidation",
      text="Decides exhaustively (finite alphabets / regular languages) that accepted tag names and attribute names cannot leave the name states, that the double-quoted value state ends only on escaped bytes, that escaped body text can reach no tag state, and that every comment text that would end the comment early is rejected (counterexample-producing DFA inclusion); plus atomicity and no-replacement encoding of validated setters. Cross-encoding confusion and other parsers are not decided.",
      ref="DESIGN.md §3 C08"),
 "C17": dict(tech="C header prototype reader compared with extern \"C\" signatures from MIR; namesake-routing, catch_panic containment, Err-edge reachability and ownership pairing rules over the C API crate's MIR; closure-capture analysis of handler closures; dominance of validation by ownership transfer (drop_callback pairing); dropped-Result scan",
      text="Decides wrapper discipline: all 93 declared functions exist with matching arity and type classes and the repr(C) struct layouts agree; each accessor/mutator calls its Rust namesake and is_html selects Html; rewriter new/write/end run only under catch_panic; every examined Result reaches save_last_error on its Err edge; streaming callbacks succeed iff they return 0; Box::into_raw/from_raw types pair up and Str::new never returns NULL for a present string. Equality of C-driven and Rust-driven runs and allocator hygiene over all histories are not decided.",
      ref="DESIGN.md §3 C17"),
}

# techniques added in the later rounds (appended to the per-property description)
ALL_TECH = "swapped-argument / crossed-field lint (operand provenance vs callee parameter and field names) over the functions of the anchored files; ref=RULES.md for the complete rule list"
EXTRA_TECH = {
 "C01": "who-may-call rule for BOM-sniffing decoders; must-typestate of action preconditions; paired-counter arithmetic of the handler vectors",
 "C03": "partial evaluation of LocalNameHash::update over all 256 bytes from MIR (code table, Tag constants recomputed); namespace-stack primitive effects",
 "C04": "partial evaluation of LocalNameHash::update over all 256 bytes from MIR (injective 5-bit codes, Tag constants); sign-domain abstract interpretation of an+b; product exploration against the WHATWG reference (attributes the VM matches on)",
 "C05": "control-independence of handler dispatch from the emission gate; decision tables of the stack directive and text-mode tags",
 "C06": "control dependence of simulator feedback calls (only on tag kind); operand provenance of the scanner-to-lexer feedback directive; who-may-write inventory of the parked text-type switch",
 "C07": "rejected edits leave raw bytes (must-not-reach-Err after invalidation)",
 "C08": "first-duplicate lookup direction; <meta charset> decision rule",
 "C10": "examined-Result Err-edge reachability (no swallowed error) with a reviewed table of locally handled errors; charged == reserved by SSA provenance",
 "C11": "examined-Result Err-edge reachability (no swallowed error); flag plumbing Settings -> TransformStream; failed token not emitted",
 "C12": "examined-Result Err-edge reachability (no swallowed error); flag independence",
 "C13": "provenance of every byte slice handed to the output sink (input bytes or encoder output); no Encoding::output_encoding detour",
 "C15": "partial evaluation over the byte domain for arithmetic assertions; asserted preconditions of eq_case_insensitive at every call site; product exploration against the WHATWG reference",
 "C16": "sibling-table agreement of the namespace URI twins; first-duplicate lookup direction",
 "C17": "named-argument plumbing through the C API wrappers; sibling-table agreement of the C-only namespace URI twin",
 "C18": "last-error slot always overwritten (no state carried between instances)",
}

PENDING_REASON = "check for this property is not built yet in this revision (work in progress; see DESIGN.md §3 for the planned static rules)"

def main():
    props = [json.loads(l) for l in open(os.path.join(HERE, "properties.jsonl"))]
    extra = {}
    ep = os.path.join(HERE, "tools", "manifest_extra.json")
    if os.path.exists(ep):
        extra = json.load(open(ep))
    checks = []
    na = []
    for p in props:
        pid = p["id"]
        c = CHECKS.get(pid) or extra.get("checks", {}).get(pid)
        if c and os.path.exists(os.path.join(HERE, "vlib", "props", pid.lower() + ".py")):
            checks.append({
                "property_id": pid,
                "quick_cmd": f"./check {pid} --tier quick",
                "thorough_cmd": f"./check {pid} --tier thorough",
                "evidence_file": f"/verif/evidence/{pid}.json",
                "replay_cmd_template": f"./check {pid} --replay {{path}}",
                "engine": "static-rules",
                "level_claimed": {"category": "other", "text": c["text"], "design_ref": c["ref"]},
                "level_note": NOTE + c.get("note", ""),
                "technique": "static analysis: " + c["tech"] + (("; " + EXTRA_TECH[pid]) if pid in EXTRA_TECH else "") + "; " + ALL_TECH,
            })
        else:
            na.append({"property_id": pid, "reason": extra.get("na", {}).get(pid, PENDING_REASON)})
    man = {
        "version": 1,
        "setup_cmd": "./setup.sh",
        "hooks": {
            "guard": "lol_html_verif",
            "enable": "none: static analysis observes nothing at run time; no hook commits exist in /repo",
            "baseline_off_cmd": "cd /repo && cargo test --workspace --no-fail-fast --offline",
            "source_commits": [],
            "add_only": True,
        },
        "engines": [
            {"name": "astq", "path": "engines/astq", "serves_properties": [c["property_id"] for c in checks], "kind_free_text": "syn-based dump of the macro-expanded crate (rustc -Zunpretty=expanded) as a JSON syntax tree"},
            {"name": "mirfacts", "path": "engines/mirfacts", "serves_properties": [c["property_id"] for c in checks], "kind_free_text": "rustc_private driver (RUSTC_WORKSPACE_WRAPPER): resolved callees, CFG, places with field names, ADTs, impls, statics as JSON"},
            {"name": "static-rules", "path": "vlib", "serves_properties": [c["property_id"] for c in checks], "kind_free_text": "Python rule layer: tokenizer automaton extraction by symbolic path enumeration, dataflow/typestate, dominance and who-may-call rules"},
        ],
        "checks": checks,
        "notes": "All checks are static analysis of /repo's working tree; exit 2 = engine error (no verdict). Known findings: /verif/known_findings.json.",
        "not_applicable": na,
    }
    with open(os.path.join(HERE, "MANIFEST.json"), "w") as fh:
        json.dump(man, fh, indent=1)
    print("checks:", [c["property_id"] for c in checks], "n/a:", [n["property_id"] for n in na])

if __name__ == "__main__":
    main()
