#!/usr/bin/env python3
"""Run the checks against every seeded change (on scratch copies of /repo, never /repo itself) and
record which rules detect which change in seeded/<id>/meta.json and seeded/MATRIX.md.

usage: tools/seed_matrix.py [--jobs N] [--only ID ...] [--props C01,C02]
"""
import argparse, glob, json, os, re, shutil, subprocess, sys, tempfile
from concurrent.futures import ThreadPoolExecutor
HERE = os.path.dirname(os.path.dirname(os.path.abspath(__file__)))


def implemented():
    return sorted(os.path.basename(p)[:-3].upper() for p in glob.glob(os.path.join(HERE, "vlib", "props", "c[0-9][0-9].py")))


def run_seed(sd, props, slot):
    name = os.path.basename(sd)
    work = tempfile.mkdtemp(prefix="smx_%s_" % name, dir="/tmp/w")
    repo = os.path.join(work, "repo")
    try:
        subprocess.run(["rsync", "-a", "--exclude", "target", "--exclude", ".git", "--exclude", "/fuzz", "--exclude", "/js-api", "--exclude", "/media", "/repo/", repo + "/"], check=True)
        p = subprocess.run(["git", "apply", os.path.join(sd, "patch.diff")], cwd=repo, stderr=subprocess.PIPE)
        if p.returncode != 0:
            p = subprocess.run("patch -p1 -F3 -s --no-backup-if-mismatch < %s" % os.path.join(sd, "patch.diff"), shell=True, cwd=repo, stderr=subprocess.PIPE, stdout=subprocess.PIPE)
            if p.returncode != 0:
                return name, {"error": "patch does not apply"}
        env = dict(os.environ)
        env["VERIF_REPO"] = repo
        env["VERIF_CACHE"] = "/tmp/w/smcache_%d" % slot
        env["VERIF_EVIDENCE_DIR"] = os.path.join(work, "evidence")
        res = {}
        for pr in props:
            q = subprocess.run([os.path.join(HERE, "check"), pr, "--tier", "quick"], env=env, stdout=subprocess.PIPE, stderr=subprocess.STDOUT, cwd=HERE)
            out = q.stdout.decode(errors="replace")
            rules = sorted(set(re.findall(r"^violation: rule=(\S+)", out, re.M)))
            res[pr] = {"exit": q.returncode, "rules": rules}
            if q.returncode == 2:
                res[pr]["error"] = out.strip().splitlines()[-1][:300] if out.strip() else ""
        return name, res
    finally:
        shutil.rmtree(work, ignore_errors=True)


def main():
    ap = argparse.ArgumentParser()
    ap.add_argument("--jobs", type=int, default=3)
    ap.add_argument("--only", nargs="*")
    ap.add_argument("--props")
    a = ap.parse_args()
    props = a.props.split(",") if a.props else implemented()
    seeds = sorted(d for d in glob.glob(os.path.join(HERE, "seeded", "C*_*")) if os.path.isdir(d))
    if a.only:
        seeds = [s for s in seeds if os.path.basename(s) in a.only]
    os.makedirs("/tmp/w", exist_ok=True)
    slots = list(range(a.jobs))
    results = {}
    import queue
    q = queue.Queue()
    for s in slots:
        q.put(s)

    def work(sd):
        slot = q.get()
        try:
            return run_seed(sd, props, slot)
        finally:
            q.put(slot)
    with ThreadPoolExecutor(max_workers=a.jobs) as ex:
        for name, res in ex.map(work, seeds):
            results[name] = res
            det = {p: v["rules"] for p, v in res.items() if isinstance(v, dict) and v.get("rules")} if "error" not in res else {}
            errs = {p: v.get("error") for p, v in res.items() if isinstance(v, dict) and v.get("exit") == 2} if "error" not in res else res
            print(name, "->", det or "NOT DETECTED", ("ENGINE-ERRORS %s" % errs) if errs else "", flush=True)
            mp = os.path.join(HERE, "seeded", name, "meta.json")
            meta = json.load(open(mp))
            old = meta.get("detected_by") or {}
            if not a.props and not ("error" in res):
                old = {}
            old.update(det)
            for p in props:
                if p not in det and p in old and not a.props:
                    del old[p]
            meta["detected_by"] = old
            meta["checks_run_against_it"] = sorted(set((meta.get("checks_run_against_it") or []) + props))
            json.dump(meta, open(mp, "w"), indent=1)
    for s in range(a.jobs):
        shutil.rmtree("/tmp/w/smcache_%d" % s, ignore_errors=True)
    # matrix
    lines = ["# Seeded changes vs. checks", "", "| seed | breaks | files | detected by |", "|---|---|---|---|"]
    for d in sorted(glob.glob(os.path.join(HERE, "seeded", "C*_*"))):
        m = json.load(open(os.path.join(d, "meta.json")))
        det = m.get("detected_by") or {}
        ds = "; ".join("%s: %s" % (p, ", ".join(r)) for p, r in sorted(det.items())) or "**not detected**"
        lines.append("| %s | %s | %s | %s |" % (m["id"], m["breaks_property"], ", ".join(m["files_changed"]), ds))
    open(os.path.join(HERE, "seeded", "MATRIX.md"), "w").write("\n".join(lines) + "\n")


if __name__ == "__main__":
    main()
