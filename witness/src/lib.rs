//! Compile-fail witnesses (E-TYPE): each `compile_fail,E0xxx` doctest has a compiling twin that
//! differs only in the offending line, so a witness that fails for a wrong reason is detected.
//! Run with `cargo +nightly test --doc` (error codes are only honoured on nightly). Twins are `no_run`:
//! they are only compiled, nothing of lol-html is executed.

/// C13 / R13.1 — a non-ASCII-compatible encoding cannot be configured: `with_encoding` takes an
/// `AsciiCompatibleEncoding`, not an `&'static Encoding`.
///
/// ```compile_fail,E0308
/// let _s = lol_html::Settings::new().with_encoding(encoding_rs::UTF_16LE);
/// ```
///
/// Twin (compiles): the checked constructor is the only way in, and it refuses UTF-16.
/// ```no_run
/// let e: Option<lol_html::AsciiCompatibleEncoding> = lol_html::AsciiCompatibleEncoding::new(encoding_rs::UTF_16LE);
/// let e = e.unwrap();
/// let _s = lol_html::Settings::new().with_encoding(e);
/// ```
pub struct R13_1NoRawEncoding;

/// C13 / R13.1 — the tuple constructor of `AsciiCompatibleEncoding` is private.
///
/// ```compile_fail,E0423
/// let _e = lol_html::AsciiCompatibleEncoding(encoding_rs::UTF_16LE);
/// ```
///
/// Twin (compiles):
/// ```no_run
/// let _e = lol_html::AsciiCompatibleEncoding::utf_8();
/// ```
pub struct R13_1PrivateConstructor;

/// C12 / R12.3 — `end(self)` consumes the rewriter: no write after end.
///
/// ```compile_fail,E0382
/// let mut rw = lol_html::HtmlRewriter::new(lol_html::Settings::new(), |_: &[u8]| {});
/// rw.write(b"x").unwrap();
/// rw.end().unwrap();
/// rw.write(b"y").unwrap();
/// ```
///
/// Twin (compiles):
/// ```no_run
/// let mut rw = lol_html::HtmlRewriter::new(lol_html::Settings::new(), |_: &[u8]| {});
/// rw.write(b"x").unwrap();
/// rw.write(b"y").unwrap();
/// rw.end().unwrap();
/// ```
pub struct R12_3EndConsumes;

/// C18 / R18.4 — a `Send` rewriter really is `Send`, and its handlers must be `Send`.
///
/// ```compile_fail,E0277
/// use lol_html::{element, send::{HtmlRewriter, Settings}};
/// let rc = std::rc::Rc::new(1);
/// let settings = Settings::new_send().append_element_content_handler(element!("a", move |_el| { let _ = &rc; Ok(()) }));
/// let _rw = HtmlRewriter::new(settings, |_: &[u8]| {});
/// ```
///
/// Twin (compiles): an `Arc` capture is fine, and the rewriter can be moved to another thread.
/// ```no_run
/// use lol_html::{element, send::{HtmlRewriter, Settings}};
/// fn assert_send<T: Send>(_: &T) {}
/// let rc = std::sync::Arc::new(1);
/// let settings = Settings::new_send().append_element_content_handler(element!("a", move |_el| { let _ = &rc; Ok(()) }));
/// let rw = HtmlRewriter::new(settings, |_: &[u8]| {});
/// assert_send(&rw);
/// ```
pub struct R18_4SendHandlers;

/// C18 / R18.4 — the default (non-`Send`) rewriter accepts `Rc` captures but is then not `Send`.
///
/// ```compile_fail,E0277
/// use lol_html::{element, HtmlRewriter, Settings};
/// fn assert_send<T: Send>(_: &T) {}
/// let rc = std::rc::Rc::new(1);
/// let settings = Settings::new().append_element_content_handler(element!("a", move |_el| { let _ = &rc; Ok(()) }));
/// let rw = HtmlRewriter::new(settings, |_: &[u8]| {});
/// assert_send(&rw);
/// ```
///
/// Twin (compiles):
/// ```no_run
/// use lol_html::{element, HtmlRewriter, Settings};
/// let rc = std::rc::Rc::new(1);
/// let settings = Settings::new().append_element_content_handler(element!("a", move |_el| { let _ = &rc; Ok(()) }));
/// let _rw = HtmlRewriter::new(settings, |_: &[u8]| {});
/// ```
pub struct R18_4LocalNotSend;
