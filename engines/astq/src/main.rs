//! astq: dump a (macro-expanded) Rust source file as a JSON syntax tree.
//!
//! usage: astq <file.rs> <out.json>
//!
//! The output is a generic tree: the rule layer (Python) does all interpretation.
//! Nothing here knows about lol-html.

use proc_macro2::Span;
use quote::ToTokens;
use serde_json::{json, Map, Value};
use syn::spanned::Spanned;
use syn::*;

const SRC_MAX: usize = 240;

fn src<T: ToTokens>(t: &T) -> String {
    let s = t.to_token_stream().to_string();
    s
}

fn short<T: ToTokens>(t: &T) -> Value {
    let s = src(t);
    if s.len() <= SRC_MAX {
        Value::String(s)
    } else {
        Value::Null
    }
}

fn line(sp: Span) -> u64 {
    sp.start().line as u64
}

fn attrs(a: &[Attribute]) -> Value {
    Value::Array(a.iter().map(|x| Value::String(src(&x.meta))).collect())
}

fn path_str(p: &Path) -> String {
    let mut s = String::new();
    if p.leading_colon.is_some() {
        s.push_str("::");
    }
    for (i, seg) in p.segments.iter().enumerate() {
        if i > 0 {
            s.push_str("::");
        }
        s.push_str(&seg.ident.to_string());
    }
    s
}

fn node(k: &str, sp: Span) -> Map<String, Value> {
    let mut m = Map::new();
    m.insert("k".into(), Value::String(k.into()));
    m.insert("l".into(), json!(line(sp)));
    m
}

fn fin(m: Map<String, Value>) -> Value {
    Value::Object(m)
}

fn ty(t: &Type) -> Value {
    Value::String(src(t))
}

fn pat(p: &Pat) -> Value {
    let mut m = node("?", p.span());
    m.insert("s".into(), short(p));
    match p {
        Pat::Ident(x) => {
            m.insert("k".into(), "PIdent".into());
            m.insert("name".into(), x.ident.to_string().into());
            m.insert("byref".into(), x.by_ref.is_some().into());
            m.insert("mut".into(), x.mutability.is_some().into());
            if let Some((_, sub)) = &x.subpat {
                m.insert("sub".into(), pat(sub));
            }
        }
        Pat::Lit(x) => {
            m.insert("k".into(), "PLit".into());
            m.insert("lit".into(), lit(&x.lit));
        }
        Pat::Or(x) => {
            m.insert("k".into(), "POr".into());
            m.insert("cases".into(), Value::Array(x.cases.iter().map(pat).collect()));
        }
        Pat::Paren(x) => return pat(&x.pat),
        Pat::Path(x) => {
            m.insert("k".into(), "PPath".into());
            m.insert("path".into(), path_str(&x.path).into());
        }
        Pat::Range(x) => {
            m.insert("k".into(), "PRange".into());
            m.insert("lo".into(), x.start.as_ref().map(|e| expr(e)).unwrap_or(Value::Null));
            m.insert("hi".into(), x.end.as_ref().map(|e| expr(e)).unwrap_or(Value::Null));
            m.insert(
                "inclusive".into(),
                matches!(x.limits, RangeLimits::Closed(_)).into(),
            );
        }
        Pat::Reference(x) => {
            m.insert("k".into(), "PRef".into());
            m.insert("pat".into(), pat(&x.pat));
        }
        Pat::Rest(_) => {
            m.insert("k".into(), "PRest".into());
        }
        Pat::Slice(x) => {
            m.insert("k".into(), "PSlice".into());
            m.insert("elems".into(), Value::Array(x.elems.iter().map(pat).collect()));
        }
        Pat::Struct(x) => {
            m.insert("k".into(), "PStruct".into());
            m.insert("path".into(), path_str(&x.path).into());
            m.insert(
                "fields".into(),
                Value::Array(
                    x.fields
                        .iter()
                        .map(|f| json!({"member": src(&f.member), "pat": pat(&f.pat)}))
                        .collect(),
                ),
            );
            m.insert("rest".into(), x.rest.is_some().into());
        }
        Pat::Tuple(x) => {
            m.insert("k".into(), "PTuple".into());
            m.insert("elems".into(), Value::Array(x.elems.iter().map(pat).collect()));
        }
        Pat::TupleStruct(x) => {
            m.insert("k".into(), "PTupleStruct".into());
            m.insert("path".into(), path_str(&x.path).into());
            m.insert("elems".into(), Value::Array(x.elems.iter().map(pat).collect()));
        }
        Pat::Type(x) => {
            m.insert("k".into(), "PType".into());
            m.insert("pat".into(), pat(&x.pat));
            m.insert("ty".into(), ty(&x.ty));
        }
        Pat::Wild(_) => {
            m.insert("k".into(), "PWild".into());
        }
        Pat::Const(_) => {
            m.insert("k".into(), "PConst".into());
        }
        Pat::Macro(x) => {
            m.insert("k".into(), "PMacro".into());
            m.insert("path".into(), path_str(&x.mac.path).into());
        }
        _ => {
            m.insert("k".into(), "POther".into());
            m.insert("src".into(), src(p).into());
        }
    }
    fin(m)
}

fn lit(l: &Lit) -> Value {
    match l {
        Lit::Str(s) => json!({"t":"str","v":s.value()}),
        Lit::ByteStr(s) => json!({"t":"bytestr","v":s.value()}),
        Lit::Byte(b) => json!({"t":"byte","v":b.value()}),
        Lit::Char(c) => json!({"t":"char","v":c.value().to_string()}),
        Lit::Int(i) => json!({"t":"int","v":i.base10_digits(), "suffix": i.suffix()}),
        Lit::Float(f) => json!({"t":"float","v":f.base10_digits()}),
        Lit::Bool(b) => json!({"t":"bool","v":b.value}),
        Lit::CStr(s) => json!({"t":"cstr","v":src(s)}),
        _ => json!({"t":"other","v":src(l)}),
    }
}

fn block(b: &Block) -> Value {
    Value::Array(b.stmts.iter().map(stmt).collect())
}

fn stmt(s: &Stmt) -> Value {
    match s {
        Stmt::Local(l) => {
            let mut m = node("Local", l.span());
            m.insert("pat".into(), pat(&l.pat));
            if let Some(init) = &l.init {
                m.insert("init".into(), expr(&init.expr));
                if let Some((_, e)) = &init.diverge {
                    m.insert("else".into(), expr(e));
                }
            }
            m.insert("attrs".into(), attrs(&l.attrs));
            fin(m)
        }
        Stmt::Item(i) => {
            let mut m = node("ItemStmt", i.span());
            m.insert("item".into(), item(i));
            fin(m)
        }
        Stmt::Expr(e, semi) => {
            let mut m = node("ExprStmt", e.span());
            m.insert("e".into(), expr(e));
            m.insert("semi".into(), semi.is_some().into());
            fin(m)
        }
        Stmt::Macro(mac) => {
            let mut m = node("MacroStmt", mac.span());
            m.insert("path".into(), path_str(&mac.mac.path).into());
            m.insert("tokens".into(), mac.mac.tokens.to_string().into());
            fin(m)
        }
    }
}

fn exprs<'a, I: Iterator<Item = &'a Expr>>(it: I) -> Value {
    Value::Array(it.map(expr).collect())
}

fn expr(e: &Expr) -> Value {
    let mut m = node("?", e.span());
    m.insert("s".into(), short(e));
    macro_rules! k {
        ($n:expr) => {
            m.insert("k".into(), $n.into());
        };
    }
    match e {
        Expr::Array(x) => {
            k!("Array");
            m.insert("elems".into(), exprs(x.elems.iter()));
        }
        Expr::Assign(x) => {
            k!("Assign");
            m.insert("left".into(), expr(&x.left));
            m.insert("right".into(), expr(&x.right));
        }
        Expr::Async(x) => {
            k!("Async");
            m.insert("body".into(), block(&x.block));
        }
        Expr::Await(x) => {
            k!("Await");
            m.insert("base".into(), expr(&x.base));
        }
        Expr::Binary(x) => {
            k!("Binary");
            m.insert("op".into(), src(&x.op).into());
            m.insert("left".into(), expr(&x.left));
            m.insert("right".into(), expr(&x.right));
        }
        Expr::Block(x) => {
            k!("Block");
            m.insert("attrs".into(), attrs(&x.attrs));
            m.insert("label".into(), x.label.as_ref().map(|l| src(l)).into());
            m.insert("body".into(), block(&x.block));
        }
        Expr::Break(x) => {
            k!("Break");
            m.insert("label".into(), x.label.as_ref().map(|l| src(l)).into());
            if let Some(v) = &x.expr {
                m.insert("value".into(), expr(v));
            }
        }
        Expr::Call(x) => {
            k!("Call");
            m.insert("func".into(), expr(&x.func));
            m.insert("args".into(), exprs(x.args.iter()));
        }
        Expr::Cast(x) => {
            k!("Cast");
            m.insert("e".into(), expr(&x.expr));
            m.insert("ty".into(), ty(&x.ty));
        }
        Expr::Closure(x) => {
            k!("Closure");
            m.insert("inputs".into(), Value::Array(x.inputs.iter().map(pat).collect()));
            m.insert("body".into(), expr(&x.body));
            m.insert("move".into(), x.capture.is_some().into());
        }
        Expr::Const(x) => {
            k!("ConstBlock");
            m.insert("body".into(), block(&x.block));
        }
        Expr::Continue(x) => {
            k!("Continue");
            m.insert("label".into(), x.label.as_ref().map(|l| src(l)).into());
        }
        Expr::Field(x) => {
            k!("Field");
            m.insert("base".into(), expr(&x.base));
            m.insert("member".into(), src(&x.member).into());
        }
        Expr::ForLoop(x) => {
            k!("ForLoop");
            m.insert("pat".into(), pat(&x.pat));
            m.insert("iter".into(), expr(&x.expr));
            m.insert("body".into(), block(&x.body));
        }
        Expr::Group(x) => return expr(&x.expr),
        Expr::If(x) => {
            k!("If");
            m.insert("cond".into(), expr(&x.cond));
            m.insert("then".into(), block(&x.then_branch));
            if let Some((_, e)) = &x.else_branch {
                m.insert("else".into(), expr(e));
            }
        }
        Expr::Index(x) => {
            k!("Index");
            m.insert("base".into(), expr(&x.expr));
            m.insert("index".into(), expr(&x.index));
        }
        Expr::Infer(_) => {
            k!("Infer");
        }
        Expr::Let(x) => {
            k!("Let");
            m.insert("pat".into(), pat(&x.pat));
            m.insert("e".into(), expr(&x.expr));
        }
        Expr::Lit(x) => {
            k!("Lit");
            m.insert("lit".into(), lit(&x.lit));
        }
        Expr::Loop(x) => {
            k!("Loop");
            m.insert("attrs".into(), attrs(&x.attrs));
            m.insert("label".into(), x.label.as_ref().map(|l| src(l)).into());
            m.insert("body".into(), block(&x.body));
        }
        Expr::Macro(x) => {
            k!("Macro");
            m.insert("path".into(), path_str(&x.mac.path).into());
            m.insert("tokens".into(), x.mac.tokens.to_string().into());
        }
        Expr::Match(x) => {
            k!("Match");
            m.insert("attrs".into(), attrs(&x.attrs));
            m.insert("scrutinee".into(), expr(&x.expr));
            m.insert(
                "arms".into(),
                Value::Array(
                    x.arms
                        .iter()
                        .map(|a| {
                            let mut am = node("Arm", a.span());
                            am.insert("pat".into(), pat(&a.pat));
                            if let Some((_, g)) = &a.guard {
                                am.insert("guard".into(), expr(g));
                            }
                            am.insert("body".into(), expr(&a.body));
                            fin(am)
                        })
                        .collect(),
                ),
            );
        }
        Expr::MethodCall(x) => {
            k!("MethodCall");
            m.insert("recv".into(), expr(&x.receiver));
            m.insert("method".into(), x.method.to_string().into());
            m.insert(
                "turbofish".into(),
                x.turbofish.as_ref().map(|t| src(t)).into(),
            );
            m.insert("args".into(), exprs(x.args.iter()));
        }
        Expr::Paren(x) => return expr(&x.expr),
        Expr::Path(x) => {
            k!("Path");
            m.insert("path".into(), path_str(&x.path).into());
            if let Some(q) = &x.qself {
                m.insert("qself".into(), ty(&q.ty));
            }
            m.insert("full".into(), src(x).into());
        }
        Expr::Range(x) => {
            k!("Range");
            m.insert("lo".into(), x.start.as_ref().map(|e| expr(e)).unwrap_or(Value::Null));
            m.insert("hi".into(), x.end.as_ref().map(|e| expr(e)).unwrap_or(Value::Null));
            m.insert(
                "inclusive".into(),
                matches!(x.limits, RangeLimits::Closed(_)).into(),
            );
        }
        Expr::RawAddr(x) => {
            k!("RawAddr");
            m.insert("e".into(), expr(&x.expr));
        }
        Expr::Reference(x) => {
            k!("Ref");
            m.insert("mut".into(), x.mutability.is_some().into());
            m.insert("e".into(), expr(&x.expr));
        }
        Expr::Repeat(x) => {
            k!("Repeat");
            m.insert("e".into(), expr(&x.expr));
            m.insert("len".into(), expr(&x.len));
        }
        Expr::Return(x) => {
            k!("Return");
            if let Some(v) = &x.expr {
                m.insert("value".into(), expr(v));
            }
        }
        Expr::Struct(x) => {
            k!("Struct");
            m.insert("path".into(), path_str(&x.path).into());
            m.insert(
                "fields".into(),
                Value::Array(
                    x.fields
                        .iter()
                        .map(|f| json!({"member": src(&f.member), "e": expr(&f.expr)}))
                        .collect(),
                ),
            );
            if let Some(r) = &x.rest {
                m.insert("rest".into(), expr(r));
            }
        }
        Expr::Try(x) => {
            k!("Try");
            m.insert("e".into(), expr(&x.expr));
        }
        Expr::TryBlock(x) => {
            k!("TryBlock");
            m.insert("body".into(), block(&x.block));
        }
        Expr::Tuple(x) => {
            k!("Tuple");
            m.insert("elems".into(), exprs(x.elems.iter()));
        }
        Expr::Unary(x) => {
            k!("Unary");
            m.insert("op".into(), src(&x.op).into());
            m.insert("e".into(), expr(&x.expr));
        }
        Expr::Unsafe(x) => {
            k!("Unsafe");
            m.insert("body".into(), block(&x.block));
        }
        Expr::While(x) => {
            k!("While");
            m.insert("label".into(), x.label.as_ref().map(|l| src(l)).into());
            m.insert("cond".into(), expr(&x.cond));
            m.insert("body".into(), block(&x.body));
        }
        Expr::Yield(_) => {
            k!("Yield");
        }
        _ => {
            k!("Other");
            m.insert("src".into(), src(e).into());
        }
    }
    fin(m)
}

fn sig(s: &Signature) -> Value {
    let inputs: Vec<Value> = s
        .inputs
        .iter()
        .map(|a| match a {
            FnArg::Receiver(r) => json!({"self": true, "src": src(r)}),
            FnArg::Typed(t) => json!({"pat": pat(&t.pat), "ty": ty(&t.ty)}),
        })
        .collect();
    json!({
        "name": s.ident.to_string(),
        "inputs": inputs,
        "output": match &s.output { ReturnType::Default => Value::Null, ReturnType::Type(_, t) => ty(t) },
        "generics": src(&s.generics),
        "where": s.generics.where_clause.as_ref().map(|w| src(w)),
        "abi": s.abi.as_ref().map(|a| src(a)),
        "unsafe": s.unsafety.is_some(),
        "const": s.constness.is_some(),
    })
}

fn fields(f: &Fields) -> Value {
    Value::Array(
        f.iter()
            .enumerate()
            .map(|(i, fld)| {
                json!({
                    "name": fld.ident.as_ref().map(|x| x.to_string()).unwrap_or_else(|| i.to_string()),
                    "ty": ty(&fld.ty),
                    "vis": src(&fld.vis),
                    "attrs": attrs(&fld.attrs),
                })
            })
            .collect(),
    )
}

fn item(i: &Item) -> Value {
    let mut m = node("?", i.span());
    macro_rules! k {
        ($n:expr) => {
            m.insert("k".into(), $n.into());
        };
    }
    match i {
        Item::Fn(x) => {
            k!("Fn");
            m.insert("attrs".into(), attrs(&x.attrs));
            m.insert("vis".into(), src(&x.vis).into());
            m.insert("sig".into(), sig(&x.sig));
            m.insert("name".into(), x.sig.ident.to_string().into());
            m.insert("body".into(), block(&x.block));
        }
        Item::Impl(x) => {
            k!("Impl");
            m.insert("attrs".into(), attrs(&x.attrs));
            m.insert("self_ty".into(), ty(&x.self_ty));
            m.insert("generics".into(), src(&x.generics).into());
            m.insert("unsafe".into(), x.unsafety.is_some().into());
            m.insert(
                "trait".into(),
                x.trait_
                    .as_ref()
                    .map(|(neg, p, _)| json!({"neg": neg.is_some(), "path": path_str(p), "full": src(p)}))
                    .unwrap_or(Value::Null),
            );
            let items: Vec<Value> = x
                .items
                .iter()
                .map(|ii| match ii {
                    ImplItem::Fn(f) => {
                        let mut fm = node("Fn", f.span());
                        fm.insert("attrs".into(), attrs(&f.attrs));
                        fm.insert("vis".into(), src(&f.vis).into());
                        fm.insert("sig".into(), sig(&f.sig));
                        fm.insert("name".into(), f.sig.ident.to_string().into());
                        fm.insert("body".into(), block(&f.block));
                        fin(fm)
                    }
                    ImplItem::Const(c) => {
                        json!({"k":"Const","name":c.ident.to_string(),"ty":ty(&c.ty),"e":expr(&c.expr), "vis": src(&c.vis)})
                    }
                    ImplItem::Type(t) => {
                        json!({"k":"TypeAlias","name":t.ident.to_string(),"ty":ty(&t.ty)})
                    }
                    other => json!({"k":"OtherImplItem","src":src(other)}),
                })
                .collect();
            m.insert("items".into(), Value::Array(items));
        }
        Item::Trait(x) => {
            k!("Trait");
            m.insert("attrs".into(), attrs(&x.attrs));
            m.insert("name".into(), x.ident.to_string().into());
            m.insert("vis".into(), src(&x.vis).into());
            m.insert("supertraits".into(), src(&x.supertraits).into());
            let items: Vec<Value> = x
                .items
                .iter()
                .map(|ti| match ti {
                    TraitItem::Fn(f) => {
                        let mut fm = node("Fn", f.span());
                        fm.insert("attrs".into(), attrs(&f.attrs));
                        fm.insert("sig".into(), sig(&f.sig));
                        fm.insert("name".into(), f.sig.ident.to_string().into());
                        match &f.default {
                            Some(b) => {
                                fm.insert("body".into(), block(b));
                            }
                            None => {
                                fm.insert("body".into(), Value::Null);
                            }
                        }
                        fin(fm)
                    }
                    other => json!({"k":"OtherTraitItem","src":src(other)}),
                })
                .collect();
            m.insert("items".into(), Value::Array(items));
        }
        Item::Mod(x) => {
            k!("Mod");
            m.insert("attrs".into(), attrs(&x.attrs));
            m.insert("name".into(), x.ident.to_string().into());
            m.insert("vis".into(), src(&x.vis).into());
            m.insert(
                "items".into(),
                x.content
                    .as_ref()
                    .map(|(_, its)| Value::Array(its.iter().map(item).collect()))
                    .unwrap_or(Value::Null),
            );
        }
        Item::Struct(x) => {
            k!("Struct");
            m.insert("attrs".into(), attrs(&x.attrs));
            m.insert("name".into(), x.ident.to_string().into());
            m.insert("vis".into(), src(&x.vis).into());
            m.insert("generics".into(), src(&x.generics).into());
            m.insert("fields".into(), fields(&x.fields));
            m.insert(
                "tuple".into(),
                matches!(x.fields, Fields::Unnamed(_)).into(),
            );
        }
        Item::Enum(x) => {
            k!("Enum");
            m.insert("attrs".into(), attrs(&x.attrs));
            m.insert("name".into(), x.ident.to_string().into());
            m.insert("vis".into(), src(&x.vis).into());
            m.insert(
                "variants".into(),
                Value::Array(
                    x.variants
                        .iter()
                        .map(|v| {
                            json!({
                                "name": v.ident.to_string(),
                                "fields": fields(&v.fields),
                                "discriminant": v.discriminant.as_ref().map(|(_, e)| src(e)),
                                "attrs": attrs(&v.attrs),
                            })
                        })
                        .collect(),
                ),
            );
        }
        Item::Static(x) => {
            k!("Static");
            m.insert("attrs".into(), attrs(&x.attrs));
            m.insert("name".into(), x.ident.to_string().into());
            m.insert("vis".into(), src(&x.vis).into());
            m.insert("ty".into(), ty(&x.ty));
            m.insert(
                "mut".into(),
                matches!(x.mutability, StaticMutability::Mut(_)).into(),
            );
            m.insert("e".into(), expr(&x.expr));
        }
        Item::Const(x) => {
            k!("Const");
            m.insert("attrs".into(), attrs(&x.attrs));
            m.insert("name".into(), x.ident.to_string().into());
            m.insert("vis".into(), src(&x.vis).into());
            m.insert("ty".into(), ty(&x.ty));
            m.insert("e".into(), expr(&x.expr));
        }
        Item::Use(x) => {
            k!("Use");
            m.insert("vis".into(), src(&x.vis).into());
            m.insert("tree".into(), src(&x.tree).into());
        }
        Item::Type(x) => {
            k!("TypeAlias");
            m.insert("name".into(), x.ident.to_string().into());
            m.insert("vis".into(), src(&x.vis).into());
            m.insert("ty".into(), ty(&x.ty));
        }
        Item::Macro(x) => {
            k!("MacroItem");
            m.insert("path".into(), path_str(&x.mac.path).into());
            m.insert(
                "name".into(),
                x.ident.as_ref().map(|i| i.to_string()).into(),
            );
        }
        Item::ExternCrate(x) => {
            k!("ExternCrate");
            m.insert("name".into(), x.ident.to_string().into());
        }
        Item::ForeignMod(x) => {
            k!("ForeignMod");
            m.insert("src".into(), src(x).into());
        }
        other => {
            k!("OtherItem");
            m.insert("src".into(), src(other).into());
        }
    }
    fin(m)
}

fn main() {
    let args: Vec<String> = std::env::args().collect();
    if args.len() != 3 {
        eprintln!("usage: astq <file.rs> <out.json>");
        std::process::exit(2);
    }
    let text = match std::fs::read_to_string(&args[1]) {
        Ok(t) => t,
        Err(e) => {
            eprintln!("astq: cannot read {}: {e}", args[1]);
            std::process::exit(2);
        }
    };
    let file = match syn::parse_file(&text) {
        Ok(f) => f,
        Err(e) => {
            let st = e.span().start();
            eprintln!("astq: parse error in {} at {}:{}: {e}", args[1], st.line, st.column);
            std::process::exit(2);
        }
    };
    let out = json!({
        "file": args[1],
        "attrs": attrs(&file.attrs),
        "items": Value::Array(file.items.iter().map(item).collect()),
    });
    let s = serde_json::to_string(&out).expect("json");
    if let Err(e) = std::fs::write(&args[2], s) {
        eprintln!("astq: cannot write {}: {e}", args[2]);
        std::process::exit(2);
    }
}
