//! mirfacts: a rustc driver (used as RUSTC_WORKSPACE_WRAPPER) that dumps facts about the
//! type-checked program and its MIR as JSON.  It knows nothing about lol-html; all rules live
//! in the Python rule layer.  One JSON file per analysed crate, written in a single write.
#![feature(rustc_private)]

extern crate rustc_abi;
extern crate rustc_driver;
extern crate rustc_hir;
extern crate rustc_interface;
extern crate rustc_middle;
extern crate rustc_session;
extern crate rustc_span;

use rustc_driver::Compilation;
use rustc_hir::def::DefKind;
use rustc_hir::def_id::{DefId, LocalDefId, LOCAL_CRATE};
use rustc_middle::mir::{
    self, AggregateKind, BasicBlock, Body, Operand, Place, ProjectionElem, Rvalue, StatementKind,
    TerminatorKind,
};
use rustc_middle::ty::{self, Instance, Ty, TyCtxt, TypingEnv};
use rustc_span::Span;
use std::fmt::Write as _;

fn esc(s: &str) -> String {
    let mut o = String::with_capacity(s.len() + 2);
    o.push('"');
    for c in s.chars() {
        match c {
            '"' => o.push_str("\\\""),
            '\\' => o.push_str("\\\\"),
            '\n' => o.push_str("\\n"),
            '\r' => o.push_str("\\r"),
            '\t' => o.push_str("\\t"),
            c if (c as u32) < 0x20 => {
                let _ = write!(o, "\\u{:04x}", c as u32);
            }
            c => o.push(c),
        }
    }
    o.push('"');
    o
}

fn span_str(tcx: TyCtxt<'_>, sp: Span) -> String {
    let sm = tcx.sess.source_map();
    let lo = sm.lookup_char_pos(sp.lo());
    let name = match &lo.file.name {
        rustc_span::FileName::Real(r) => match r.local_path() {
            Some(p) => p.display().to_string(),
            None => format!("{:?}", r),
        },
        other => format!("{:?}", other),
    };
    format!("{}:{}", name, lo.line)
}

struct Cx<'tcx> {
    tcx: TyCtxt<'tcx>,
}

impl<'tcx> Cx<'tcx> {
    fn path(&self, did: DefId) -> String {
        self.tcx.def_path_str(did)
    }

    fn ty_str(&self, t: Ty<'tcx>) -> String {
        format!("{}", t)
    }

    /// place -> JSON {"local": n, "proj": [...]}
    fn place(&self, body: &Body<'tcx>, p: &Place<'tcx>) -> String {
        let tcx = self.tcx;
        let mut s = String::new();
        let _ = write!(s, "{{\"local\":{},\"proj\":[", p.local.as_usize());
        let mut pty = mir::PlaceTy::from_ty(body.local_decls[p.local].ty);
        let mut first = true;
        for elem in p.projection.iter() {
            if !first {
                s.push(',');
            }
            first = false;
            match elem {
                ProjectionElem::Deref => s.push_str("\"*\""),
                ProjectionElem::Field(f, _) => {
                    let mut name = format!("{}", f.as_usize());
                    let mut owner = String::new();
                    match pty.ty.kind() {
                        ty::Adt(def, _) => {
                            let vidx = pty.variant_index.unwrap_or(rustc_abi::FIRST_VARIANT);
                            if let Some(v) = def.variants().get(vidx) {
                                if let Some(fd) = v.fields.get(f) {
                                    name = fd.name.to_string();
                                }
                                owner = self.path(def.did());
                                if def.is_enum() {
                                    owner = format!("{}::{}", owner, v.name);
                                }
                            }
                        }
                        ty::Closure(did, _) => {
                            owner = format!("closure@{}", self.path(*did));
                            let names = tcx.closure_saved_names_of_captured_variables(*did);
                            if let Some(n) = names.get(f) {
                                name = n.to_string();
                            }
                        }
                        ty::Tuple(_) => owner = "tuple".to_string(),
                        _ => {}
                    }
                    let _ = write!(s, "{{\"f\":{},\"of\":{}}}", esc(&name), esc(&owner));
                }
                ProjectionElem::Downcast(name, idx) => {
                    let n = name.map(|n| n.to_string()).unwrap_or_else(|| format!("{}", idx.as_usize()));
                    let _ = write!(s, "{{\"variant\":{}}}", esc(&n));
                }
                ProjectionElem::Index(l) => {
                    let _ = write!(s, "{{\"index\":{}}}", l.as_usize());
                }
                ProjectionElem::ConstantIndex { offset, from_end, .. } => {
                    let _ = write!(s, "{{\"cindex\":{},\"from_end\":{}}}", offset, from_end);
                }
                ProjectionElem::Subslice { .. } => s.push_str("\"subslice\""),
                ProjectionElem::OpaqueCast(_) => s.push_str("\"opaque\""),
                ProjectionElem::UnwrapUnsafeBinder(_) => s.push_str("\"unwrap_binder\""),
            }
            pty = pty.projection_ty(tcx, elem);
        }
        s.push_str("]}");
        s
    }

    fn operand(&self, body: &Body<'tcx>, caller: DefId, o: &Operand<'tcx>) -> String {
        match o {
            Operand::Copy(p) => format!("{{\"k\":\"copy\",\"p\":{}}}", self.place(body, p)),
            Operand::Move(p) => format!("{{\"k\":\"move\",\"p\":{}}}", self.place(body, p)),
            Operand::Constant(c) => {
                let t = c.const_.ty();
                let mut extra = String::new();
                if let ty::FnDef(did, args) = t.kind() {
                    let (r, _) = self.resolve(caller, *did, args);
                    let _ = write!(extra, ",\"fn\":{}", esc(&r));
                } else {
                    let env = TypingEnv::post_analysis(self.tcx, caller);
                    if let Some(si) = c.const_.try_eval_scalar_int(self.tcx, env) {
                        let _ = write!(extra, ",\"int\":{}", esc(&format!("{:?}", si)));
                    } else if let Some(rustc_middle::mir::interpret::Scalar::Ptr(ptr, _)) = c.const_.try_eval_scalar(self.tcx, env) {
                        let aid = ptr.provenance.alloc_id();
                        if let Some(rustc_middle::mir::interpret::GlobalAlloc::Static(sdid)) = self.tcx.try_get_global_alloc(aid) {
                            let _ = write!(extra, ",\"static\":{}", esc(&self.path(sdid)));
                        }
                    }
                }
                format!(
                    "{{\"k\":\"const\",\"ty\":{},\"v\":{}{}}}",
                    esc(&self.ty_str(t)),
                    esc(&format!("{}", c.const_)),
                    extra
                )
            }
            #[allow(unreachable_patterns)]
            _ => "{\"k\":\"other\"}".to_string(),
        }
    }

    /// resolve a callee to the most specific instance we can; returns (path, how)
    fn resolve(&self, caller: DefId, did: DefId, args: ty::GenericArgsRef<'tcx>) -> (String, &'static str) {
        let tcx = self.tcx;
        let env = TypingEnv::post_analysis(tcx, caller);
        // generic args that still mention the caller's params cannot always be resolved
        match Instance::try_resolve(tcx, env, did, args) {
            Ok(Some(inst)) => {
                let d = inst.def_id();
                let how = if d == did { "direct" } else { "resolved" };
                (self.path(d), how)
            }
            _ => (self.path(did), "unresolved"),
        }
    }

    fn rvalue(&self, body: &Body<'tcx>, caller: DefId, rv: &Rvalue<'tcx>) -> String {
        let op = |o: &Operand<'tcx>| self.operand(body, caller, o);
        match rv {
            Rvalue::Use(o, ..) => format!("{{\"k\":\"use\",\"o\":{}}}", op(o)),
            Rvalue::Ref(_, bk, p) => format!(
                "{{\"k\":\"ref\",\"mut\":{},\"p\":{}}}",
                matches!(bk, mir::BorrowKind::Mut { .. }),
                self.place(body, p)
            ),
            Rvalue::RawPtr(_, p) => format!("{{\"k\":\"rawptr\",\"p\":{}}}", self.place(body, p)),
            Rvalue::BinaryOp(b, ops) => format!(
                "{{\"k\":\"bin\",\"op\":{},\"a\":{},\"b\":{}}}",
                esc(&format!("{:?}", b)),
                op(&ops.0),
                op(&ops.1)
            ),
            Rvalue::UnaryOp(u, o) => format!("{{\"k\":\"un\",\"op\":{},\"o\":{}}}", esc(&format!("{:?}", u)), op(o)),
            Rvalue::Cast(kind, o, t) => format!(
                "{{\"k\":\"cast\",\"kind\":{},\"o\":{},\"ty\":{}}}",
                esc(&format!("{:?}", kind)),
                op(o),
                esc(&self.ty_str(*t))
            ),
            Rvalue::Discriminant(p) => format!("{{\"k\":\"discr\",\"p\":{}}}", self.place(body, p)),
            Rvalue::Aggregate(kind, ops) => {
                let (what, name) = match &**kind {
                    AggregateKind::Adt(did, vidx, _, _, _) => {
                        let def = self.tcx.adt_def(*did);
                        let mut n = self.path(*did);
                        if def.is_enum() {
                            n = format!("{}::{}", n, def.variant(*vidx).name);
                        }
                        ("adt", n)
                    }
                    AggregateKind::Closure(did, _) => ("closure", self.path(*did)),
                    AggregateKind::Tuple => ("tuple", String::new()),
                    AggregateKind::Array(_) => ("array", String::new()),
                    _ => ("other", String::new()),
                };
                let mut fields = String::new();
                if let AggregateKind::Adt(did, vidx, _, _, _) = &**kind {
                    let def = self.tcx.adt_def(*did);
                    let v = def.variant(*vidx);
                    let names: Vec<String> = v.fields.iter().map(|f| esc(&f.name.to_string())).collect();
                    fields = format!(",\"fields\":[{}]", names.join(","));
                }
                let os: Vec<String> = ops.iter().map(|o| op(o)).collect();
                format!(
                    "{{\"k\":\"agg\",\"what\":\"{}\",\"name\":{}{},\"ops\":[{}]}}",
                    what,
                    esc(&name),
                    fields,
                    os.join(",")
                )
            }
            Rvalue::Repeat(o, _) => format!("{{\"k\":\"repeat\",\"o\":{}}}", op(o)),
            Rvalue::CopyForDeref(p) => format!("{{\"k\":\"use\",\"o\":{{\"k\":\"copy\",\"p\":{}}}}}", self.place(body, p)),
            other => format!("{{\"k\":\"other\",\"dbg\":{}}}", esc(&format!("{:?}", other).chars().take(120).collect::<String>())),
        }
    }

    fn body_json(&self, did: LocalDefId, body: &Body<'tcx>) -> String {
        let tcx = self.tcx;
        let caller = did.to_def_id();
        let mut s = String::new();
        // locals
        s.push_str("\"locals\":[");
        for (i, l) in body.local_decls.iter().enumerate() {
            if i > 0 {
                s.push(',');
            }
            let _ = write!(s, "{}", esc(&self.ty_str(l.ty)));
        }
        s.push_str("],");
        let _ = write!(s, "\"arg_count\":{},", body.arg_count);
        s.push_str("\"names\":{");
        let mut first = true;
        for vdi in body.var_debug_info.iter() {
            if let mir::VarDebugInfoContents::Place(p) = &vdi.value {
                if p.projection.is_empty() {
                    if !first {
                        s.push(',');
                    }
                    first = false;
                    let _ = write!(s, "\"{}\":{}", p.local.as_usize(), esc(&vdi.name.to_string()));
                }
            }
        }
        s.push_str("},\"blocks\":[");
        for (bi, bb) in body.basic_blocks.iter_enumerated() {
            if bi.as_usize() > 0 {
                s.push(',');
            }
            let _ = write!(s, "{{\"cleanup\":{},\"stmts\":[", bb.is_cleanup);
            let mut firsts = true;
            for st in bb.statements.iter() {
                let js = match &st.kind {
                    StatementKind::Assign(b) => {
                        let (p, rv) = &**b;
                        Some(format!(
                            "{{\"k\":\"assign\",\"p\":{},\"rv\":{},\"l\":{}}}",
                            self.place(body, p),
                            self.rvalue(body, caller, rv),
                            self.line(st.source_info.span)
                        ))
                    }
                    StatementKind::SetDiscriminant { place, variant_index } => Some(format!(
                        "{{\"k\":\"setdiscr\",\"p\":{},\"v\":{}}}",
                        self.place(body, place),
                        variant_index.as_usize()
                    )),
                    _ => None,
                };
                if let Some(js) = js {
                    if !firsts {
                        s.push(',');
                    }
                    firsts = false;
                    s.push_str(&js);
                }
            }
            s.push_str("],\"term\":");
            let term = bb.terminator();
            let tl = self.line(term.source_info.span);
            let from_exp = term.source_info.span.from_expansion();
            let bbn = |b: &BasicBlock| b.as_usize();
            let t = match &term.kind {
                TerminatorKind::Goto { target } => format!("{{\"k\":\"goto\",\"t\":{}}}", bbn(target)),
                TerminatorKind::SwitchInt { discr, targets } => {
                    let mut ts = String::new();
                    for (i, (v, b)) in targets.iter().enumerate() {
                        if i > 0 {
                            ts.push(',');
                        }
                        let _ = write!(ts, "[{},{}]", v, bbn(&b));
                    }
                    format!(
                        "{{\"k\":\"switch\",\"d\":{},\"ts\":[{}],\"else\":{}}}",
                        self.operand(body, caller, discr),
                        ts,
                        bbn(&targets.otherwise())
                    )
                }
                TerminatorKind::Return => "{\"k\":\"return\"}".to_string(),
                TerminatorKind::Unreachable => "{\"k\":\"unreachable\"}".to_string(),
                TerminatorKind::UnwindResume => "{\"k\":\"resume\"}".to_string(),
                TerminatorKind::UnwindTerminate(_) => "{\"k\":\"terminate\"}".to_string(),
                TerminatorKind::Drop { place, target, .. } => format!(
                    "{{\"k\":\"drop\",\"p\":{},\"pty\":{},\"t\":{}}}",
                    self.place(body, place),
                    esc(&self.ty_str(place.ty(body, tcx).ty)),
                    bbn(target)
                ),
                TerminatorKind::Call { func, args, destination, target, .. } => {
                    let mut callee = String::new();
                    let mut how = "indirect";
                    let mut raw = String::new();
                    let mut substs = String::new();
                    let fty = func.ty(body, tcx);
                    match fty.kind() {
                        ty::FnDef(d, a) => {
                            let (r, h) = self.resolve(caller, *d, a);
                            callee = r;
                            how = h;
                            raw = self.path(*d);
                            substs = format!("{:?}", a);
                        }
                        _ => {
                            raw = self.ty_str(fty);
                        }
                    }
                    let asj: Vec<String> = args.iter().map(|a| self.operand(body, caller, &a.node)).collect();
                    let atys: Vec<String> = args.iter().map(|a| esc(&self.ty_str(a.node.ty(body, tcx)))).collect();
                    format!(
                        "{{\"k\":\"call\",\"callee\":{},\"raw\":{},\"how\":\"{}\",\"substs\":{},\"func\":{},\"args\":[{}],\"atys\":[{}],\"dest\":{},\"t\":{},\"l\":{},\"exp\":{}}}",
                        esc(&callee),
                        esc(&raw),
                        how,
                        esc(&substs),
                        self.operand(body, caller, func),
                        asj.join(","),
                        atys.join(","),
                        self.place(body, destination),
                        target.map(|t| t.as_usize() as i64).unwrap_or(-1),
                        tl,
                        from_exp
                    )
                }
                TerminatorKind::Assert { cond, expected, msg, target, .. } => {
                    let kind = match &**msg {
                        mir::AssertKind::BoundsCheck { .. } => "bounds".to_string(),
                        mir::AssertKind::Overflow(op, ..) => format!("overflow:{:?}", op),
                        mir::AssertKind::OverflowNeg(_) => "overflow:Neg".to_string(),
                        mir::AssertKind::DivisionByZero(_) => "div_zero".to_string(),
                        mir::AssertKind::RemainderByZero(_) => "rem_zero".to_string(),
                        other => format!("other:{:?}", other).chars().take(60).collect(),
                    };
                    format!(
                        "{{\"k\":\"assert\",\"kind\":{},\"cond\":{},\"expected\":{},\"t\":{},\"l\":{},\"exp\":{}}}",
                        esc(&kind),
                        self.operand(body, caller, cond),
                        expected,
                        bbn(target),
                        tl,
                        from_exp
                    )
                }
                TerminatorKind::FalseEdge { real_target, .. } => format!("{{\"k\":\"goto\",\"t\":{}}}", bbn(real_target)),
                TerminatorKind::FalseUnwind { real_target, .. } => format!("{{\"k\":\"goto\",\"t\":{}}}", bbn(real_target)),
                other => format!("{{\"k\":\"other\",\"dbg\":{}}}", esc(&format!("{:?}", other).chars().take(80).collect::<String>())),
            };
            s.push_str(&t);
            s.push('}');
        }
        s.push(']');
        s
    }

    fn line(&self, sp: Span) -> usize {
        let sm = self.tcx.sess.source_map();
        sm.lookup_char_pos(sp.lo()).line
    }
}

struct Cb;

impl rustc_driver::Callbacks for Cb {
    fn after_analysis<'tcx>(&mut self, _c: &rustc_interface::interface::Compiler, tcx: TyCtxt<'tcx>) -> Compilation {
        let krate = tcx.crate_name(LOCAL_CRATE).to_string();
        let wanted = std::env::var("MIRFACTS_CRATES").unwrap_or_default();
        if !wanted.split(',').any(|w| w == krate) {
            return Compilation::Continue;
        }
        let outdir = match std::env::var("MIRFACTS_OUT") {
            Ok(o) => o,
            Err(_) => return Compilation::Continue,
        };
        let cx = Cx { tcx };
        let mut out = String::with_capacity(8 << 20);
        let _ = write!(out, "{{\"crate\":{},\"fns\":[", esc(&krate));
        let mut first = true;
        let mut nfn = 0usize;
        for did in tcx.hir_body_owners() {
            let kind = tcx.def_kind(did);
            let is_fn = matches!(kind, DefKind::Fn | DefKind::AssocFn | DefKind::Closure);
            if !is_fn {
                continue;
            }
            let body = tcx.optimized_mir(did);
            if !first {
                out.push(',');
            }
            first = false;
            nfn += 1;
            let d = did.to_def_id();
            let mut vis = String::new();
            let mut abi = String::new();
            let mut no_mangle = false;
            let mut sig = String::new();
            if matches!(kind, DefKind::Fn | DefKind::AssocFn) {
                vis = format!("{:?}", tcx.visibility(d));
                let fs = tcx.fn_sig(d).instantiate_identity().skip_normalization();
                abi = format!("{:?}", fs.abi());
                sig = format!("{}", fs);
                let attrs = tcx.codegen_fn_attrs(d);
                no_mangle = attrs.flags.contains(rustc_middle::middle::codegen_fn_attrs::CodegenFnAttrFlags::NO_MANGLE)
                    || attrs.symbol_name.is_some();
            }
            // the impl (if any) this fn belongs to
            let mut impl_of = String::new();
            let mut trait_of = String::new();
            let mut self_ty = String::new();
            if let Some(parent) = tcx.opt_parent(d) {
                if let DefKind::Impl { of_trait } = tcx.def_kind(parent) {
                    impl_of = cx.path(parent);
                    self_ty = format!("{}", tcx.type_of(parent).instantiate_identity().skip_normalization());
                    if of_trait {
                        let tr = tcx.impl_trait_ref(parent).instantiate_identity().skip_normalization();
                        trait_of = cx.path(tr.def_id);
                    }
                } else if let DefKind::Trait = tcx.def_kind(parent) {
                    trait_of = cx.path(parent);
                    impl_of = "<trait default>".to_string();
                }
            }
            let sp = tcx.def_span(d);
            let _ = write!(
                out,
                "{{\"path\":{},\"kind\":\"{:?}\",\"vis\":{},\"abi\":{},\"no_mangle\":{},\"sig\":{},\"impl\":{},\"trait\":{},\"self_ty\":{},\"span\":{},\"exp\":{},{}}}",
                esc(&cx.path(d)),
                kind,
                esc(&vis),
                esc(&abi),
                no_mangle,
                esc(&sig),
                esc(&impl_of),
                esc(&trait_of),
                esc(&self_ty),
                esc(&span_str(tcx, sp)),
                sp.from_expansion(),
                cx.body_json(did, body)
            );
        }
        out.push_str("],\"adts\":[");
        // ADTs, impls, statics
        let items = tcx.hir_crate_items(());
        let mut first = true;
        let mut impls = String::new();
        let mut statics = String::new();
        for ldid in items.definitions() {
            let d = ldid.to_def_id();
            match tcx.def_kind(d) {
                DefKind::Struct | DefKind::Enum | DefKind::Union => {
                    let def = tcx.adt_def(d);
                    if !first {
                        out.push(',');
                    }
                    first = false;
                    let _ = write!(out, "{{\"path\":{},\"enum\":{},\"span\":{},\"repr_c\":{},\"variants\":[", esc(&cx.path(d)), def.is_enum(), esc(&span_str(tcx, tcx.def_span(d))), def.repr().c());
                    for (vi, v) in def.variants().iter().enumerate() {
                        if vi > 0 {
                            out.push(',');
                        }
                        let _ = write!(out, "{{\"name\":{},\"fields\":[", esc(&v.name.to_string()));
                        for (fi, f) in v.fields.iter().enumerate() {
                            if fi > 0 {
                                out.push(',');
                            }
                            let fty = tcx.type_of(f.did).instantiate_identity().skip_normalization();
                            let _ = write!(
                                out,
                                "{{\"name\":{},\"ty\":{},\"vis\":{}}}",
                                esc(&f.name.to_string()),
                                esc(&format!("{}", fty)),
                                esc(&format!("{:?}", f.vis))
                            );
                        }
                        out.push_str("]}");
                    }
                    out.push_str("]}");
                }
                DefKind::Impl { of_trait } => {
                    if !impls.is_empty() {
                        impls.push(',');
                    }
                    let st = tcx.type_of(d).instantiate_identity().skip_normalization();
                    let mut tr = String::new();
                    let mut neg = false;
                    let mut unsafe_ = false;
                    if of_trait {
                        let r = tcx.impl_trait_ref(d).instantiate_identity().skip_normalization();
                        tr = cx.path(r.def_id);
                        neg = matches!(tcx.impl_polarity(d), ty::ImplPolarity::Negative);
                        unsafe_ = tcx.trait_def(r.def_id).safety.is_unsafe();
                    }
                    let _ = write!(
                        impls,
                        "{{\"path\":{},\"self_ty\":{},\"trait\":{},\"neg\":{},\"unsafe_trait\":{},\"span\":{}}}",
                        esc(&cx.path(d)),
                        esc(&format!("{}", st)),
                        esc(&tr),
                        neg,
                        unsafe_,
                        esc(&span_str(tcx, tcx.def_span(d)))
                    );
                }
                DefKind::Static { mutability, nested, .. } => {
                    if nested {
                        continue;
                    }
                    if !statics.is_empty() {
                        statics.push(',');
                    }
                    let t = tcx.type_of(d).instantiate_identity().skip_normalization();
                    let env = TypingEnv::fully_monomorphized();
                    let freeze = t.is_freeze(tcx, env);
                    let attrs = tcx.codegen_fn_attrs(d);
                    let tl = attrs.flags.contains(rustc_middle::middle::codegen_fn_attrs::CodegenFnAttrFlags::THREAD_LOCAL);
                    let _ = write!(
                        statics,
                        "{{\"path\":{},\"ty\":{},\"mut\":{},\"freeze\":{},\"thread_local\":{},\"span\":{},\"exp\":{}}}",
                        esc(&cx.path(d)),
                        esc(&format!("{}", t)),
                        matches!(mutability, rustc_hir::Mutability::Mut),
                        freeze,
                        tl,
                        esc(&span_str(tcx, tcx.def_span(d))),
                        tcx.def_span(d).from_expansion()
                    );
                }
                _ => {}
            }
        }
        let _ = write!(out, "],\"impls\":[{}],\"statics\":[{}],\"nfn\":{}}}", impls, statics, nfn);
        let path = format!("{}/{}.json", outdir, krate);
        if let Err(e) = std::fs::write(&path, out) {
            eprintln!("mirfacts: cannot write {}: {}", path, e);
        }
        Compilation::Continue
    }
}

fn main() {
    let mut args: Vec<String> = std::env::args().collect();
    // RUSTC_WORKSPACE_WRAPPER: argv[1] is the real rustc path
    if args.len() > 1 && (args[1].ends_with("rustc") || args[1].contains("/rustc")) {
        args.remove(1);
    }
    let mut cb = Cb;
    rustc_driver::run_compiler(&args, &mut cb);
}
