#!/bin/sh
# Build the analysis engines from files on disk only (offline).
set -e
cd "$(dirname "$0")"
export CARGO_NET_OFFLINE=true
(cd engines/astq && cargo build --release --offline)
if [ -d engines/mirfacts ]; then
  (cd engines/mirfacts && cargo +nightly build --release --offline)
fi
if [ -d witness ]; then
  cp /repo/Cargo.lock witness/Cargo.lock 2>/dev/null || true
fi
mkdir -p .cache evidence
echo "setup ok"
