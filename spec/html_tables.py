"""Reference tables transcribed from the WHATWG HTML specification (not from lol-html's source).

Sections: 13.2.6.4.7 (in body: text-mode switching start tags), 13.2.6.5 (foreign content break-out
list, integration points), 13.1.2 (void elements), 13.2.6.4.16 (in select), 13.2.6.4.20-22 (frameset).
Names are lower-case element names.
"""

# start tags after which the tree builder switches the tokenizer (scripting enabled; noscript -> RAWTEXT)
TEXT_TYPE_BY_TAG = {
    "textarea": "RCData", "title": "RCData",
    "plaintext": "PlainText",
    "script": "ScriptData",
    "style": "RawText", "iframe": "RawText", "xmp": "RawText", "noembed": "RawText", "noframes": "RawText", "noscript": "RawText",
}

# 13.2.6.5 "in foreign content": start tags that break out of foreign content
FOREIGN_BREAKOUT = {
    "b", "big", "blockquote", "body", "br", "center", "code", "dd", "div", "dl", "dt", "em", "embed",
    "h1", "h2", "h3", "h4", "h5", "h6", "head", "hr", "i", "img", "li", "listing", "menu", "meta", "nobr",
    "ol", "p", "pre", "ruby", "s", "small", "span", "strong", "strike", "sub", "sup", "table", "tt", "u", "ul", "var",
}
FONT_BREAKOUT_ATTRS = {"color", "face", "size"}

MATHML_TEXT_INTEGRATION_POINTS = {"mi", "mo", "mn", "ms", "mtext"}
SVG_HTML_INTEGRATION_POINTS = {"foreignobject", "desc", "title"}
ANNOTATION_XML_HTML_ENCODINGS = {"text/html", "application/xhtml+xml"}

# 13.1.2 void elements + the obsolete ones every parser treats as void (13.2.6.4.7: basefont, bgsound, keygen ...)
VOID_ELEMENTS = {"area", "base", "br", "col", "embed", "hr", "img", "input", "link", "meta", "source", "track", "wbr"}
VOID_OBSOLETE = {"basefont", "bgsound", "keygen", "param", "frame"}

# "in select" insertion mode: start tags that close the select / leave the mode
IN_SELECT_LEAVE_START = {"select", "input", "keygen", "textarea"}
# text-mode switching start tag that "in select" does process (so it is not ambiguous): script (and template content)
IN_SELECT_PROCESSED = {"script"}
# in/after frameset: the only text-mode switching element processed is noframes
FRAMESET_PROCESSED = {"noframes"}
