"""Reference model of the WHATWG HTML tokenizer (HTML Standard, section 13.2.5 "Tokenization"),
transcribed from the specification text - NOT from lol-html's source - in a "range style":
instead of building strings, every token part is a half-open range [start, end) of input
positions, expressed relative to the position p of the character currently being consumed.

Not modelled (by-design deviations of lol-html, listed in DESIGN.md): character references
(they change text/attribute *content*, not token boundaries), NUL replacement, CR/LF
normalisation (CR is treated as whitespace, which is what the spec sees after normalisation),
removal of duplicate attributes.

step(state, sym, oracle) -> (ops, next_state)
  sym: 0..255 or EOF (256).  oracle: dict with 'appropriate' (bool), 'cdata_allowed' (bool).
  ops (interpreted by the product explorer, same vocabulary as the lol-html side):
    ("set", reg, k)        reg := p + k
    ("clr", reg)           reg := unset
    ("flag", name, value)
    ("create", kind)       kind in start_tag / end_tag / comment / doctype
    ("new_attr",)          a new attribute starts on the current tag
    ("emit", kind)         token ends with the current character (extent [mark, p+1))
    ("emit_at_eof", kind)  token emitted at end of input (extent [mark, p))
    ("drop",)              characters [mark, p+1) produce no token and no character tokens
    ("drop_at_eof",)       same, at end of input (extent [mark, p))
    ("eof",)
  next_state: a state, or ("AWAIT_TEXT", kind) after a tag was emitted: the tree builder
  chooses the tokenizer state (modelled by the explorer for every choice).
"""

EOF = 256
WS = frozenset(b"\t\n\x0c \r")
ALPHA = frozenset(range(65, 91)) | frozenset(range(97, 123))

TEXT_STATES = {"Data": "data", "RCData": "rcdata", "RawText": "rawtext", "ScriptData": "script_data", "PlainText": "plaintext", "CDataSection": "cdata_section"}

SCRIPT = b"script"
MDO_CANDIDATES = [(b"--", "comment", False), (b"doctype", "doctype", True), (b"[CDATA[", "cdata", False)]


def lower(c):
    return c | 0x20 if 65 <= c <= 90 else c


class Spec:
    def step(self, state, sym, oracle):
        """consume one symbol; follows 'reconsume in' chains"""
        ops = []
        for _ in range(16):
            name = state[0] if isinstance(state, tuple) else state
            fn = getattr(self, "s_" + name)
            o, nxt, reconsume = fn(state, sym, oracle)
            ops += o
            state = nxt
            if not reconsume:
                return ops, state
        raise RuntimeError("spec model: reconsume loop in " + str(state))

    # ---------------------------------------------------------------- text states
    def s_data(self, st, c, o):
        if c == ord("<"):
            return [("set", "mark", 0)], "tag_open", False
        if c == EOF:
            return [("eof",)], "END", False
        return [], "data", False

    def s_rcdata(self, st, c, o):
        if c == ord("<"):
            return [("set", "mark", 0)], "rcdata_lt", False
        if c == EOF:
            return [("eof",)], "END", False
        return [], "rcdata", False

    def s_rawtext(self, st, c, o):
        if c == ord("<"):
            return [("set", "mark", 0)], "rawtext_lt", False
        if c == EOF:
            return [("eof",)], "END", False
        return [], "rawtext", False

    def s_script_data(self, st, c, o):
        if c == ord("<"):
            return [("set", "mark", 0)], "script_lt", False
        if c == EOF:
            return [("eof",)], "END", False
        return [], "script_data", False

    def s_plaintext(self, st, c, o):
        if c == EOF:
            return [("eof",)], "END", False
        return [], "plaintext", False

    # ---------------------------------------------------------------- tags
    def s_tag_open(self, st, c, o):
        if c == ord("!"):
            return [], ("mdo", b""), False
        if c == ord("/"):
            return [], "end_tag_open", False
        if c in ALPHA:
            return [("create", "start_tag"), ("set", "name_s", 0)], "tag_name", True
        if c == ord("?"):
            return [("create", "comment"), ("set", "c_s", 0), ("set", "c_e", 0)], "bogus_comment", True
        if c == EOF:
            return [("eof",)], "END", False
        return [], "data", True

    def s_end_tag_open(self, st, c, o):
        if c in ALPHA:
            return [("create", "end_tag"), ("set", "name_s", 0)], "tag_name", True
        if c == ord(">"):
            return [("drop",)], "data", False
        if c == EOF:
            return [("eof",)], "END", False
        return [("create", "comment"), ("set", "c_s", 0), ("set", "c_e", 0)], "bogus_comment", True

    def s_tag_name(self, st, c, o):
        if c in WS:
            return [("set", "name_e", 0)], "before_attr_name", False
        if c == ord("/"):
            return [("set", "name_e", 0)], "self_closing", False
        if c == ord(">"):
            return [("set", "name_e", 0), ("emit", "tag")], ("AWAIT_TEXT",), False
        if c == EOF:
            return [("drop_at_eof",), ("eof",)], "END", False
        return [], "tag_name", False

    # RCDATA / RAWTEXT / script data end tags -------------------------------------------
    def _lt(self, c, end_open, back):
        if c == ord("/"):
            return [], end_open, False
        return [], back, True

    def s_rcdata_lt(self, st, c, o):
        return self._lt(c, "rcdata_end_open", "rcdata")

    def s_rawtext_lt(self, st, c, o):
        return self._lt(c, "rawtext_end_open", "rawtext")

    def _end_open(self, c, name_state, back):
        if c in ALPHA:
            return [("create", "end_tag"), ("set", "name_s", 0)], name_state, True
        return [], back, True

    def s_rcdata_end_open(self, st, c, o):
        return self._end_open(c, "rcdata_end_name", "rcdata")

    def s_rawtext_end_open(self, st, c, o):
        return self._end_open(c, "rawtext_end_name", "rawtext")

    def _end_name(self, c, o, me, back):
        if o.get("appropriate"):
            if c in WS:
                return [("set", "name_e", 0)], "before_attr_name", False
            if c == ord("/"):
                return [("set", "name_e", 0)], "self_closing", False
            if c == ord(">"):
                return [("set", "name_e", 0), ("emit", "tag")], ("AWAIT_TEXT",), False
        if c in ALPHA:
            return [], me, False
        return [], back, True

    def s_rcdata_end_name(self, st, c, o):
        return self._end_name(c, o, "rcdata_end_name", "rcdata")

    def s_rawtext_end_name(self, st, c, o):
        return self._end_name(c, o, "rawtext_end_name", "rawtext")

    def s_script_lt(self, st, c, o):
        if c == ord("/"):
            return [], "script_end_open", False
        if c == ord("!"):
            return [], "script_escape_start", False
        return [], "script_data", True

    def s_script_end_open(self, st, c, o):
        return self._end_open(c, "script_end_name", "script_data")

    def s_script_end_name(self, st, c, o):
        return self._end_name(c, o, "script_end_name", "script_data")

    def s_script_escape_start(self, st, c, o):
        if c == ord("-"):
            return [], "script_escape_start_dash", False
        return [], "script_data", True

    def s_script_escape_start_dash(self, st, c, o):
        if c == ord("-"):
            return [], "script_escaped_dash_dash", False
        return [], "script_data", True

    def s_script_escaped(self, st, c, o):
        if c == ord("-"):
            return [], "script_escaped_dash", False
        if c == ord("<"):
            return [("set", "mark", 0)], "script_escaped_lt", False
        if c == EOF:
            return [("eof",)], "END", False
        return [], "script_escaped", False

    def s_script_escaped_dash(self, st, c, o):
        if c == ord("-"):
            return [], "script_escaped_dash_dash", False
        if c == ord("<"):
            return [("set", "mark", 0)], "script_escaped_lt", False
        if c == EOF:
            return [("eof",)], "END", False
        return [], "script_escaped", False

    def s_script_escaped_dash_dash(self, st, c, o):
        if c == ord("-"):
            return [], "script_escaped_dash_dash", False
        if c == ord("<"):
            return [("set", "mark", 0)], "script_escaped_lt", False
        if c == ord(">"):
            return [], "script_data", False
        if c == EOF:
            return [("eof",)], "END", False
        return [], "script_escaped", False

    def s_script_escaped_lt(self, st, c, o):
        if c == ord("/"):
            return [], "script_escaped_end_open", False
        if c in ALPHA:
            return [], ("script_double_escape_start", 0, True), True
        return [], "script_escaped", True

    def s_script_escaped_end_open(self, st, c, o):
        return self._end_open(c, "script_escaped_end_name", "script_escaped")

    def s_script_escaped_end_name(self, st, c, o):
        return self._end_name(c, o, "script_escaped_end_name", "script_escaped")

    def _buffer_step(self, st, c, yes, no, me):
        """temporary buffer compared with "script": (matched prefix length, still equal)"""
        _, k, eq = st
        if c in WS or c in (ord("/"), ord(">")):
            if eq and k == len(SCRIPT):
                return [], yes, False
            return [], no, False
        if c in ALPHA:
            eq2 = eq and k < len(SCRIPT) and lower(c) == SCRIPT[k]
            return [], (me, min(k + 1, len(SCRIPT) + 1), eq2), False
        return [], no, True

    def s_script_double_escape_start(self, st, c, o):
        return self._buffer_step(st, c, "script_double_escaped", "script_escaped", "script_double_escape_start")

    def s_script_double_escaped(self, st, c, o):
        if c == ord("-"):
            return [], "script_double_escaped_dash", False
        if c == ord("<"):
            return [], "script_double_escaped_lt", False
        if c == EOF:
            return [("eof",)], "END", False
        return [], "script_double_escaped", False

    def s_script_double_escaped_dash(self, st, c, o):
        if c == ord("-"):
            return [], "script_double_escaped_dash_dash", False
        if c == ord("<"):
            return [], "script_double_escaped_lt", False
        if c == EOF:
            return [("eof",)], "END", False
        return [], "script_double_escaped", False

    def s_script_double_escaped_dash_dash(self, st, c, o):
        if c == ord("-"):
            return [], "script_double_escaped_dash_dash", False
        if c == ord("<"):
            return [], "script_double_escaped_lt", False
        if c == ord(">"):
            return [], "script_data", False
        if c == EOF:
            return [("eof",)], "END", False
        return [], "script_double_escaped", False

    def s_script_double_escaped_lt(self, st, c, o):
        if c == ord("/"):
            return [], ("script_double_escape_end", 0, True), False
        return [], "script_double_escaped", True

    def s_script_double_escape_end(self, st, c, o):
        return self._buffer_step(st, c, "script_escaped", "script_double_escaped", "script_double_escape_end")

    # ---------------------------------------------------------------- attributes
    def s_before_attr_name(self, st, c, o):
        if c in WS:
            return [], "before_attr_name", False
        if c in (ord("/"), ord(">"), EOF):
            return [], "after_attr_name", True
        if c == ord("="):
            return [("new_attr",), ("set", "an_s", 0), ("set", "an_e", 1)], "attr_name", False
        return [("new_attr",), ("set", "an_s", 0), ("set", "an_e", 0)], "attr_name", True

    def s_attr_name(self, st, c, o):
        if c in WS or c in (ord("/"), ord(">"), EOF):
            return [("set", "an_e", 0)], "after_attr_name", True
        if c == ord("="):
            return [("set", "an_e", 0)], "before_attr_value", False
        return [("set", "an_e", 1)], "attr_name", False

    def s_after_attr_name(self, st, c, o):
        if c in WS:
            return [], "after_attr_name", False
        if c == ord("/"):
            return [], "self_closing", False
        if c == ord("="):
            return [], "before_attr_value", False
        if c == ord(">"):
            return [("emit", "tag")], ("AWAIT_TEXT",), False
        if c == EOF:
            return [("drop_at_eof",), ("eof",)], "END", False
        return [("new_attr",), ("set", "an_s", 0), ("set", "an_e", 0)], "attr_name", True

    def s_before_attr_value(self, st, c, o):
        if c in WS:
            return [], "before_attr_value", False
        if c == ord('"'):
            return [("set", "av_s", 1), ("set", "av_e", 1)], ("attr_value_q", ord('"')), False
        if c == ord("'"):
            return [("set", "av_s", 1), ("set", "av_e", 1)], ("attr_value_q", ord("'")), False
        if c == ord(">"):
            return [("emit", "tag")], ("AWAIT_TEXT",), False
        return [("set", "av_s", 0), ("set", "av_e", 0)], "attr_value_unq", True

    def s_attr_value_q(self, st, c, o):
        if c == st[1]:
            return [], "after_attr_value_q", False
        if c == EOF:
            return [("drop_at_eof",), ("eof",)], "END", False
        return [("set", "av_e", 1)], st, False

    def s_attr_value_unq(self, st, c, o):
        if c in WS:
            return [], "before_attr_name", False
        if c == ord(">"):
            return [("emit", "tag")], ("AWAIT_TEXT",), False
        if c == EOF:
            return [("drop_at_eof",), ("eof",)], "END", False
        return [("set", "av_e", 1)], "attr_value_unq", False

    def s_after_attr_value_q(self, st, c, o):
        if c in WS:
            return [], "before_attr_name", False
        if c == ord("/"):
            return [], "self_closing", False
        if c == ord(">"):
            return [("emit", "tag")], ("AWAIT_TEXT",), False
        if c == EOF:
            return [("drop_at_eof",), ("eof",)], "END", False
        return [], "before_attr_name", True

    def s_self_closing(self, st, c, o):
        if c == ord(">"):
            return [("flag", "self_closing", True), ("emit", "tag")], ("AWAIT_TEXT",), False
        if c == EOF:
            return [("drop_at_eof",), ("eof",)], "END", False
        return [], "before_attr_name", True

    # ---------------------------------------------------------------- comments
    def s_bogus_comment(self, st, c, o):
        if c == ord(">"):
            return [("emit", "comment")], "data", False
        if c == EOF:
            return [("emit_at_eof", "comment"), ("eof",)], "END", False
        return [("set", "c_e", 1)], "bogus_comment", False

    def s_mdo(self, st, c, o):
        """markup declaration open: the spec looks ahead; here the matched prefix is the sub-state.
        On a mismatch the comment is created with its data starting right after `<!` and the
        already seen characters (which cannot contain `>`) are consumed by the bogus comment state."""
        pre = st[1]
        if c != EOF:
            ext = pre + bytes([c])
            for lit, what, ci in MDO_CANDIDATES:
                cand = ext.lower() if ci else ext
                target = lit.lower() if ci else lit
                if target.startswith(cand):
                    if len(cand) == len(target):
                        if what == "comment":
                            return [("create", "comment"), ("set", "c_s", 1), ("set", "c_e", 1)], "comment_start", False
                        if what == "doctype":
                            return [], "doctype", False
                        if o.get("cdata_allowed"):
                            return [("drop",)], "cdata_section", False
                        # cdata-in-html-content: a comment whose data is "[CDATA["
                        return [("create", "comment"), ("set", "c_s", -len(pre)), ("set", "c_e", 1)], "bogus_comment", False
                    return [], ("mdo", ext), False
        # incorrectly-opened-comment: create a comment, switch to bogus comment without consuming
        n = len(pre)
        return [("create", "comment"), ("set", "c_s", -n), ("set", "c_e", 0)], "bogus_comment", True

    def s_comment_start(self, st, c, o):
        if c == ord("-"):
            return [], "comment_start_dash", False
        if c == ord(">"):
            return [("emit", "comment")], "data", False
        return [], "comment", True

    def s_comment_start_dash(self, st, c, o):
        if c == ord("-"):
            return [], "comment_end", False
        if c == ord(">"):
            return [("emit", "comment")], "data", False
        if c == EOF:
            return [("emit_at_eof", "comment"), ("eof",)], "END", False
        return [("set", "c_e", 0)], "comment", True

    def s_comment(self, st, c, o):
        if c == ord("<"):
            return [("set", "c_e", 1)], "comment_lt", False
        if c == ord("-"):
            return [], "comment_end_dash", False
        if c == EOF:
            return [("emit_at_eof", "comment"), ("eof",)], "END", False
        return [("set", "c_e", 1)], "comment", False

    def s_comment_lt(self, st, c, o):
        if c == ord("!"):
            return [("set", "c_e", 1)], "comment_lt_bang", False
        if c == ord("<"):
            return [("set", "c_e", 1)], "comment_lt", False
        return [], "comment", True

    def s_comment_lt_bang(self, st, c, o):
        if c == ord("-"):
            return [], "comment_lt_bang_dash", False
        return [], "comment", True

    def s_comment_lt_bang_dash(self, st, c, o):
        if c == ord("-"):
            return [], "comment_lt_bang_dash_dash", False
        return [], "comment_end_dash", True

    def s_comment_lt_bang_dash_dash(self, st, c, o):
        return [], "comment_end", True

    def s_comment_end_dash(self, st, c, o):
        if c == ord("-"):
            return [], "comment_end", False
        if c == EOF:
            return [("emit_at_eof", "comment"), ("eof",)], "END", False
        return [("set", "c_e", 0)], "comment", True

    def s_comment_end(self, st, c, o):
        if c == ord(">"):
            return [("emit", "comment")], "data", False
        if c == ord("!"):
            return [], "comment_end_bang", False
        if c == ord("-"):
            return [("set", "c_e", -1)], "comment_end", False
        if c == EOF:
            return [("emit_at_eof", "comment"), ("eof",)], "END", False
        return [("set", "c_e", 0)], "comment", True

    def s_comment_end_bang(self, st, c, o):
        if c == ord("-"):
            return [("set", "c_e", 0)], "comment_end_dash", False
        if c == ord(">"):
            return [("emit", "comment")], "data", False
        if c == EOF:
            return [("emit_at_eof", "comment"), ("eof",)], "END", False
        return [("set", "c_e", 0)], "comment", True

    # ---------------------------------------------------------------- doctype
    def _dt_eof(self):
        return [("flag", "force_quirks", True), ("emit_at_eof", "doctype"), ("eof",)], "END", False

    def s_doctype(self, st, c, o):
        if c in WS:
            return [], "before_doctype_name", False
        if c == EOF:
            return [("create", "doctype"), ("flag", "force_quirks", True), ("emit_at_eof", "doctype"), ("eof",)], "END", False
        return [], "before_doctype_name", True

    def s_before_doctype_name(self, st, c, o):
        if c in WS:
            return [], "before_doctype_name", False
        if c == ord(">"):
            return [("create", "doctype"), ("flag", "force_quirks", True), ("emit", "doctype")], "data", False
        if c == EOF:
            return [("create", "doctype"), ("flag", "force_quirks", True), ("emit_at_eof", "doctype"), ("eof",)], "END", False
        return [("create", "doctype"), ("set", "dn_s", 0), ("set", "dn_e", 1)], "doctype_name", False

    def s_doctype_name(self, st, c, o):
        if c in WS:
            return [("set", "dn_e", 0)], "after_doctype_name", False
        if c == ord(">"):
            return [("set", "dn_e", 0), ("emit", "doctype")], "data", False
        if c == EOF:
            return [("set", "dn_e", 0)] + self._dt_eof()[0], "END", False
        return [("set", "dn_e", 1)], "doctype_name", False

    def s_after_doctype_name(self, st, c, o):
        """st = ('after_doctype_name', matched prefix of PUBLIC/SYSTEM)"""
        pre = st[1] if isinstance(st, tuple) else b""
        if not pre:
            if c in WS:
                return [], "after_doctype_name", False
            if c == ord(">"):
                return [("emit", "doctype")], "data", False
            if c == EOF:
                return self._dt_eof()
        if c != EOF:
            ext = (pre + bytes([c])).lower()
            for lit, nxt in ((b"public", "after_doctype_public_kw"), (b"system", "after_doctype_system_kw")):
                if lit.startswith(ext):
                    if len(ext) == len(lit):
                        return [], nxt, False
                    return [], ("after_doctype_name", ext), False
        # anything else: force-quirks, reconsume in bogus doctype (the matched prefix, if any, is skipped there)
        return [("flag", "force_quirks", True)], "bogus_doctype", True

    def _after_kw(self, c, before, idreg, idstate):
        if c in WS:
            return [], before, False
        if c in (ord('"'), ord("'")):
            return [("set", idreg + "_s", 1), ("set", idreg + "_e", 1)], (idstate, c), False
        if c == ord(">"):
            return [("flag", "force_quirks", True), ("emit", "doctype")], "data", False
        if c == EOF:
            return self._dt_eof()
        return [("flag", "force_quirks", True)], "bogus_doctype", True

    def s_after_doctype_public_kw(self, st, c, o):
        return self._after_kw(c, "before_doctype_public_id", "pub", "doctype_public_id")

    def s_before_doctype_public_id(self, st, c, o):
        if c in WS:
            return [], "before_doctype_public_id", False
        return self._after_kw(c, "before_doctype_public_id", "pub", "doctype_public_id")

    def _id(self, st, c, reg, after):
        if c == st[1]:
            return [], after, False
        if c == ord(">"):
            return [("flag", "force_quirks", True), ("emit", "doctype")], "data", False
        if c == EOF:
            return self._dt_eof()
        return [("set", reg + "_e", 1)], st, False

    def s_doctype_public_id(self, st, c, o):
        return self._id(st, c, "pub", "after_doctype_public_id")

    def s_after_doctype_public_id(self, st, c, o):
        if c in WS:
            return [], "between_doctype_ids", False
        if c == ord(">"):
            return [("emit", "doctype")], "data", False
        if c in (ord('"'), ord("'")):
            return [("set", "sys_s", 1), ("set", "sys_e", 1)], ("doctype_system_id", c), False
        if c == EOF:
            return self._dt_eof()
        return [("flag", "force_quirks", True)], "bogus_doctype", True

    def s_between_doctype_ids(self, st, c, o):
        if c in WS:
            return [], "between_doctype_ids", False
        return self.s_after_doctype_public_id(st, c, o) if c not in WS else ([], "between_doctype_ids", False)

    def s_after_doctype_system_kw(self, st, c, o):
        return self._after_kw(c, "before_doctype_system_id", "sys", "doctype_system_id")

    def s_before_doctype_system_id(self, st, c, o):
        if c in WS:
            return [], "before_doctype_system_id", False
        return self._after_kw(c, "before_doctype_system_id", "sys", "doctype_system_id")

    def s_doctype_system_id(self, st, c, o):
        return self._id(st, c, "sys", "after_doctype_system_id")

    def s_after_doctype_system_id(self, st, c, o):
        if c in WS:
            return [], "after_doctype_system_id", False
        if c == ord(">"):
            return [("emit", "doctype")], "data", False
        if c == EOF:
            return self._dt_eof()
        return [], "bogus_doctype", True

    def s_bogus_doctype(self, st, c, o):
        if c == ord(">"):
            return [("emit", "doctype")], "data", False
        if c == EOF:
            return [("emit_at_eof", "doctype"), ("eof",)], "END", False
        return [], "bogus_doctype", False

    # ---------------------------------------------------------------- CDATA
    def s_cdata_section(self, st, c, o):
        if c == ord("]"):
            return [("set", "mark", 0)], "cdata_bracket", False
        if c == EOF:
            return [("eof",)], "END", False
        return [], "cdata_section", False

    def s_cdata_bracket(self, st, c, o):
        if c == ord("]"):
            return [], "cdata_end", False
        return [], "cdata_section", True

    def s_cdata_end(self, st, c, o):
        if c == ord("]"):
            # one more `]` becomes text: the candidate terminator now starts one character later
            return [("set", "mark", -1)], "cdata_end", False
        if c == ord(">"):
            return [("drop",)], "data", False
        return [], "cdata_section", True
