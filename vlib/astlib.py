"""Helpers over the JSON syntax tree produced by engines/astq."""
import re


# astq's JSON objects are key-sorted (serde_json default); restore source order of children
_PRIO = {"attrs": 0, "pat": 1, "scrutinee": 1, "cond": 1, "recv": 1, "func": 1, "base": 1, "left": 1, "lo": 1, "iter": 1,
         "e": 2, "init": 2, "inputs": 2, "guard": 2, "index": 3, "args": 3, "then": 3, "arms": 3, "hi": 3,
         "body": 4, "right": 4, "else": 5, "elems": 3, "fields": 3, "rest": 6, "value": 3, "items": 4, "item": 4}


def _children(n):
    ks = [k for k, v in n.items() if isinstance(v, (dict, list))]
    ks.sort(key=lambda k: (_PRIO.get(k, 3), k))
    return ks


def walk(node):
    """Yield every dict node (depth-first, document order)."""
    stack = [node]
    while stack:
        n = stack.pop()
        if isinstance(n, dict):
            yield n
            for k in reversed(_children(n)):
                stack.append(n[k])
        elif isinstance(n, list):
            for v in reversed(n):
                if isinstance(v, (dict, list)):
                    stack.append(v)


def kind(n, k):
    return isinstance(n, dict) and n.get("k") == k


def norm_ty(s):
    """'Lexer < S >' -> 'Lexer<S>'"""
    return re.sub(r"\s+", "", s or "")


def base_ty(s):
    """'Lexer < S >' -> 'Lexer' ; '& mut Foo < 'a >' -> 'Foo'"""
    s = norm_ty(s)
    s = re.sub(r"^&(mut)?('[a-z_]+)?", "", s)
    s = s.split("<")[0]
    return s.split("::")[-1]


class FnRec:
    __slots__ = ("mods", "owner", "trait", "name", "node", "in_trait_def", "cfg_test")

    def __init__(self, mods, owner, trait, name, node, in_trait_def=False):
        self.mods = mods
        self.owner = owner
        self.trait = trait
        self.name = name
        self.node = node
        self.in_trait_def = in_trait_def

    @property
    def path(self):
        p = "::".join(self.mods)
        if self.owner:
            o = self.owner
            if self.trait:
                o = f"<{self.owner} as {self.trait}>"
            return f"{p}::{o}::{self.name}" if p else f"{o}::{self.name}"
        return f"{p}::{self.name}" if p else self.name

    def __repr__(self):
        return "FnRec(" + self.path + ")"


class Index:
    """All functions / types / impls of an expanded crate, with module paths."""

    def __init__(self, ast):
        self.fns = []
        self.structs = {}
        self.enums = {}
        self.impls = []
        self.statics = []
        self.traits = {}
        self.consts = []
        self._walk_items(ast["items"], [])

    def _is_test(self, it):
        for a in it.get("attrs", []) or []:
            a2 = a.replace(" ", "")
            if a2 == "cfg(test)" or a2 == "test":
                return True
        return False

    def _walk_items(self, items, mods):
        for it in items or []:
            k = it.get("k")
            if self._is_test(it):
                continue
            if k == "Mod":
                self._walk_items(it.get("items"), mods + [it["name"]])
            elif k == "Fn":
                self.fns.append(FnRec(mods, None, None, it["name"], it))
                self._nested(it, mods + [it["name"]])
            elif k == "Impl":
                owner = base_ty(it["self_ty"])
                tr = it["trait"]["path"].split("::")[-1] if it.get("trait") else None
                self.impls.append((mods, it))
                for ii in it["items"]:
                    if ii.get("k") == "Fn":
                        self.fns.append(FnRec(mods, owner, tr, ii["name"], ii))
                        self._nested(ii, mods + [owner, ii["name"]])
            elif k == "Trait":
                self.traits["::".join(mods + [it["name"]])] = it
                for ti in it["items"]:
                    if ti.get("k") == "Fn":
                        self.fns.append(FnRec(mods, it["name"], None, ti["name"], ti, in_trait_def=True))
            elif k == "Struct":
                self.structs["::".join(mods + [it["name"]])] = it
            elif k == "Enum":
                self.enums["::".join(mods + [it["name"]])] = it
            elif k == "Static":
                self.statics.append((mods, it))
            elif k == "Const":
                self.consts.append((mods, it))
                # consts like `const _: () = { impl ... }` may hold items
                for n in walk(it.get("e")):
                    if n.get("k") == "ItemStmt":
                        self._walk_items([n["item"]], mods)

    def _nested(self, fnnode, mods):
        for n in walk(fnnode.get("body")):
            if n.get("k") == "ItemStmt":
                self._walk_items([n["item"]], mods)

    def find(self, name, owner=None, trait=None, mod_contains=None):
        out = []
        for f in self.fns:
            if f.name != name:
                continue
            if owner is not None and f.owner != owner:
                continue
            if trait is not None and f.trait != trait:
                continue
            if mod_contains is not None and mod_contains not in "::".join(f.mods):
                continue
            out.append(f)
        return out

    def one(self, name, owner=None, trait=None, mod_contains=None):
        r = self.find(name, owner, trait, mod_contains)
        if len(r) != 1:
            from .facts import EngineError
            raise EngineError(f"anchor fn {owner}::{name} (trait={trait}, mod~{mod_contains}): expected exactly 1, found {len(r)}")
        return r[0]

    def struct(self, name):
        r = [v for k, v in self.structs.items() if k.split("::")[-1] == name]
        if len(r) != 1:
            from .facts import EngineError
            raise EngineError(f"anchor struct {name}: expected 1, found {len(r)}")
        return r[0]

    def enum(self, name):
        r = [v for k, v in self.enums.items() if k.split("::")[-1] == name]
        if len(r) != 1:
            from .facts import EngineError
            raise EngineError(f"anchor enum {name}: expected 1, found {len(r)}")
        return r[0]


def method_calls(node, method=None):
    for n in walk(node):
        if n.get("k") == "MethodCall" and (method is None or n["method"] == method):
            yield n


def calls(node):
    """All Call nodes with a path callee: yields (path, node)."""
    for n in walk(node):
        if n.get("k") == "Call" and n["func"].get("k") == "Path":
            yield n["func"]["path"], n


def is_self_field(n, field=None):
    return kind(n, "Field") and kind(n["base"], "Path") and n["base"]["path"] == "self" and (field is None or n["member"] == field)


def walk_path(node, path=()):
    """Yield (dict node, path) where path is a tuple of (parent dict, key) pairs from the root."""
    if isinstance(node, dict):
        yield node, path
        for k in _children(node):
            yield from walk_path(node[k], path + ((node, k),))
    elif isinstance(node, list):
        for v in node:
            if isinstance(v, (dict, list)):
                yield from walk_path(v, path)


def enclosing_ifs(path):
    """[(if node, branch)] for the If nodes enclosing a node, branch in {'cond','then','else'}"""
    out = []
    for parent, key in path:
        if parent.get("k") == "If" and key in ("cond", "then", "else"):
            out.append((parent, key))
    return out
