"""E-PEVAL: partial evaluator over the MIR facts, for finite input domains.

A function is run with some parameters fixed to concrete integers and everything else unknown (None).  The
evaluator follows every CFG path that the known values do not rule out (an unknown switch operand forks),
wraps arithmetic at the width of the MIR type, and reports
  * the `assert` terminators (arithmetic overflow, bounds, division) whose condition is *known* to fail,
  * the values stored to places / returned on each completed path.
Loops are cut by a step budget; a cut path makes the run `incomplete` (callers then make no claim).
It never executes the program: it interprets the compiler's IR of the current source over a domain small
enough to enumerate (all 256 bytes)."""
import json
import re

INT_RE = re.compile(r"^(u|i)(8|16|32|64|128|size)$")


def int_ty(ty):
    m = INT_RE.match(ty or "")
    if not m:
        return None
    bits = 64 if m.group(2) == "size" else int(m.group(2))
    return (m.group(1) == "i", bits)


def wrap(v, ty):
    it = int_ty(ty)
    if v is None or it is None:
        return v
    signed, bits = it
    v &= (1 << bits) - 1
    if signed and v >> (bits - 1):
        v -= 1 << bits
    return v


def in_range(v, ty):
    it = int_ty(ty)
    if it is None:
        return True
    signed, bits = it
    lo, hi = (-(1 << (bits - 1)), (1 << (bits - 1)) - 1) if signed else (0, (1 << bits) - 1)
    return lo <= v <= hi


class Failure:
    def __init__(self, block, kind, line, detail):
        self.block, self.kind, self.line, self.detail = block, kind, line, detail

    def __repr__(self):
        return "assert %s fails in bb%d (line %s): %s" % (self.kind, self.block, self.line, self.detail)


class Path:
    def __init__(self, env, ret_block):
        self.env, self.ret_block = env, ret_block


class PEval:
    def __init__(self, f, max_steps=4000, identity_calls=(r"convert::From<u\d+> for [ui]\d+>::from$", r"^std::convert::From::from$")):
        self.f = f
        self.max_steps = max_steps
        self.identity = [re.compile(x) for x in identity_calls]

    # ------------------------------------------------------------------ places / operands
    def pkey(self, p):
        return "%d|%s" % (p["local"], json.dumps(p["proj"], sort_keys=True)) if p["proj"] else str(p["local"])

    def ty_of_place(self, p):
        ty = self.f.rec["locals"][p["local"]]
        for e in p["proj"]:
            if isinstance(e, dict) and "f" in e and ty.startswith("(") and e.get("of") == "tuple":
                parts = [x.strip() for x in ty[1:-1].split(",")]
                i = int(e["f"])
                ty = parts[i] if i < len(parts) else None
            else:
                return None
            if ty is None:
                return None
        return ty

    def const(self, o):
        if "int" in o and o["int"] is not None:
            try:
                return wrap(int(o["int"], 16), o.get("ty"))
            except ValueError:
                return None
        if o.get("ty") == "bool":
            return {"true": 1, "false": 0}.get(str(o.get("v")))
        return None

    def op_ty(self, o):
        if o["k"] == "const":
            return o.get("ty")
        return self.ty_of_place(o["p"])

    def val(self, env, o):
        if o["k"] == "const":
            return self.const(o)
        return env.get(self.pkey(o["p"]))

    # ------------------------------------------------------------------ rvalues
    def binop(self, op, a, b, ta):
        ovf = op.endswith("WithOverflow")
        base = op[:-12] if ovf else op
        if base in ("Eq", "Ne", "Lt", "Le", "Gt", "Ge"):
            if a is None or b is None:
                return None
            return int({"Eq": a == b, "Ne": a != b, "Lt": a < b, "Le": a <= b, "Gt": a > b, "Ge": a >= b}[base])
        if base == "BitAnd" and (a == 0 or b == 0):
            return 0
        if a is None or b is None:
            # masks bound the result even when the other side is unknown - not tracked (None)
            return (None, None) if ovf else None
        it = int_ty(ta)
        bits = it[1] if it else 64
        if base == "Add":
            v = a + b
        elif base == "Sub":
            v = a - b
        elif base == "Mul":
            v = a * b
        elif base == "BitAnd":
            v = a & b
        elif base == "BitOr":
            v = a | b
        elif base == "BitXor":
            v = a ^ b
        elif base in ("Shl", "ShlUnchecked"):
            v = a << (b % bits)
        elif base in ("Shr", "ShrUnchecked"):
            v = a >> (b % bits)
        elif base in ("Div", "Rem"):
            if b == 0:
                return None
            q = abs(a) // abs(b) * (1 if (a >= 0) == (b >= 0) else -1)
            v = q if base == "Div" else a - q * b
        else:
            return (None, None) if ovf else None
        if ovf:
            return (wrap(v, ta), int(not in_range(v, ta)))
        return wrap(v, ta)

    def rvalue(self, env, dest_ty, rv):
        k = rv["k"]
        if k == "use":
            return self.val(env, rv["o"])
        if k == "bin":
            return self.binop(rv["op"], self.val(env, rv["a"]), self.val(env, rv["b"]), self.op_ty(rv["a"]))
        if k == "cast" and rv.get("kind") in ("IntToInt",):
            v = self.val(env, rv["o"])
            return wrap(v, rv.get("ty")) if isinstance(v, int) else None
        if k == "un":
            v = self.val(env, rv["o"])
            if not isinstance(v, int):
                return None
            if rv["op"] == "Not":
                ty = self.op_ty(rv["o"])
                return int(not v) if ty == "bool" else wrap(~v, ty)
            if rv["op"] == "Neg":
                return wrap(-v, self.op_ty(rv["o"]))
        return None

    def store(self, env, p, v):
        key = self.pkey(p)
        # a write through an unknown projection of a local invalidates what we knew of its parts
        if isinstance(v, tuple):
            for i, x in enumerate(v):
                env[self.pkey({"local": p["local"], "proj": p["proj"] + [{"f": str(i), "of": "tuple"}]})] = x
            env.pop(key, None)
            return
        if not p["proj"]:
            for k2 in [k2 for k2 in env if k2.startswith("%d|" % p["local"])]:
                del env[k2]
        if v is None:
            env.pop(key, None)
        else:
            env[key] = v

    # ------------------------------------------------------------------ driver
    def run(self, args, places=None):
        """args: {param index (1-based): int}; places: [(place json, int)] seeds for memory behind references.
        -> (failures, paths, complete)"""
        f = self.f
        env0 = {str(i): wrap(v, f.rec["locals"][i]) for i, v in args.items()}
        for p, v in (places or []):
            env0[self.pkey(p)] = v
        failures, paths = [], []
        seen_fail = set()
        work = [(0, env0, 0)]
        steps = 0
        complete = True
        while work:
            bi, env, depth = work.pop()
            while True:
                steps += 1
                if steps > self.max_steps or depth > 400:
                    complete = False
                    break
                b = f.blocks[bi]
                for st in b["stmts"]:
                    if st["k"] == "assign":
                        self.store(env, st["p"], self.rvalue(env, None, st["rv"]))
                t = b["term"]
                k = t["k"]
                depth += 1
                if k == "goto":
                    bi = t["t"]
                elif k == "switch":
                    v = self.val(env, t["d"])
                    if v is None:
                        targets = sorted(set([x[1] for x in t["ts"]] + [t["else"]]))
                        for tgt in targets[1:]:
                            work.append((tgt, dict(env), depth))
                        bi = targets[0]
                    else:
                        ty = self.op_ty(t["d"])
                        it = int_ty(ty)
                        uv = v & ((1 << it[1]) - 1) if it else v
                        nxt = t["else"]
                        for val_, tgt in t["ts"]:
                            if val_ == uv:
                                nxt = tgt
                        bi = nxt
                elif k == "assert":
                    v = self.val(env, t["cond"])
                    if v is not None and bool(v) != bool(t["expected"]):
                        sig = (bi, t["kind"])
                        if sig not in seen_fail:
                            seen_fail.add(sig)
                            failures.append(Failure(bi, t["kind"], t.get("l"), f.deep(t["cond"])[:160]))
                        break
                    bi = t["t"]
                elif k == "call":
                    callee = t.get("callee") or ""
                    dest = t.get("dest")
                    if dest is not None:
                        if any(r.search(callee) for r in self.identity) and len(t["args"]) == 1:
                            self.store(env, dest, self.val(env, t["args"][0]))
                        else:
                            self.store(env, dest, None)
                            # the callee may write through any reference it was given
                            for a in t["args"]:
                                if a["k"] in ("copy", "move"):
                                    for k2 in [k2 for k2 in env if k2.startswith("%d|" % a["p"]["local"])]:
                                        del env[k2]
                    if t.get("t") is None:
                        break
                    bi = t["t"]
                elif k == "return":
                    paths.append(Path(env, bi))
                    break
                elif k == "drop":
                    bi = t["t"]
                else:
                    # unreachable / resume / unknown terminators end the path
                    if k not in ("unreachable", "resume", "abort"):
                        complete = False
                    break
        return failures, paths, complete
