"""Small regular-language toolkit over the byte alphabet (0..255), used for writer/reader
agreement rules (C08).  DFAs are complete: trans[state][byte] -> state."""

N = 256


class DFA:
    def __init__(self, trans, start, accept):
        self.trans = trans          # list of lists (256 entries)
        self.start = start
        self.accept = set(accept)

    def n(self):
        return len(self.trans)

    def run(self, bs):
        q = self.start
        for b in bs:
            q = self.trans[q][b]
        return q

    def accepts(self, bs):
        return self.run(bs) in self.accept

    def complement(self):
        return DFA(self.trans, self.start, set(range(self.n())) - self.accept)

    def product(self, other, op):
        idx = {}
        trans = []
        acc = set()
        todo = [(self.start, other.start)]
        idx[todo[0]] = 0
        trans.append(None)
        while todo:
            a, b = todo.pop()
            i = idx[(a, b)]
            row = [0] * N
            for c in range(N):
                p = (self.trans[a][c], other.trans[b][c])
                if p not in idx:
                    idx[p] = len(trans)
                    trans.append(None)
                    todo.append(p)
                row[c] = idx[p]
            trans[i] = row
            if op(a in self.accept, b in other.accept):
                acc.add(i)
        return DFA(trans, 0, acc)

    def union(self, o):
        return self.product(o, lambda x, y: x or y)

    def intersect(self, o):
        return self.product(o, lambda x, y: x and y)

    def minus(self, o):
        return self.product(o, lambda x, y: x and not y)

    def shortest(self):
        """a shortest accepted byte string, or None if the language is empty"""
        from collections import deque
        prev = {self.start: None}
        dq = deque([self.start])
        while dq:
            q = dq.popleft()
            if q in self.accept:
                out = []
                while prev[q] is not None:
                    q, c = prev[q]
                    out.append(c)
                return bytes(reversed(out))
            # prefer printable bytes for readable witnesses
            order = list(range(33, 127)) + [32, 10, 9] + [c for c in range(N) if not (33 <= c < 127) and c not in (32, 10, 9)]
            for c in order:
                t = self.trans[q][c]
                if t not in prev:
                    prev[t] = (q, c)
                    dq.append(t)
        return None

    def is_empty(self):
        return self.shortest() is None


class NFA:
    """epsilon-NFA; trans: dict state -> dict (byte or None) -> set(states)"""

    def __init__(self):
        self.trans = {}
        self.nstates = 0
        self.start = self.new()
        self.accept = set()

    def new(self):
        s = self.nstates
        self.nstates += 1
        self.trans[s] = {}
        return s

    def add(self, a, c, b):
        self.trans[a].setdefault(c, set()).add(b)

    def add_any(self, a, b):
        for c in range(N):
            self.add(a, c, b)

    def eclose(self, S):
        S = set(S)
        todo = list(S)
        while todo:
            q = todo.pop()
            for t in self.trans[q].get(None, ()):
                if t not in S:
                    S.add(t)
                    todo.append(t)
        return frozenset(S)

    def to_dfa(self):
        s0 = self.eclose([self.start])
        idx = {s0: 0}
        trans = [None]
        todo = [s0]
        acc = set()
        while todo:
            S = todo.pop()
            i = idx[S]
            row = [0] * N
            for c in range(N):
                T = set()
                for q in S:
                    T |= self.trans[q].get(c, set())
                T = self.eclose(T)
                if T not in idx:
                    idx[T] = len(trans)
                    trans.append(None)
                    todo.append(T)
                row[c] = idx[T]
            trans[i] = row
            if S & self.accept:
                acc.add(i)
        return DFA(trans, 0, acc)


def embed(nfa, dfa):
    """copy a DFA into an NFA; returns (mapping start state, set of accept states) in nfa numbering"""
    m = [nfa.new() for _ in range(dfa.n())]
    for q in range(dfa.n()):
        for c in range(N):
            nfa.add(m[q], c, m[dfa.trans[q][c]])
    return m[dfa.start], set(m[q] for q in dfa.accept)


def sigma_star():
    return DFA([[0] * N], 0, {0})


def empty():
    return DFA([[0] * N], 0, set())


def literal_prefix(lit):
    """lit . Sigma*"""
    n = NFA()
    q = n.start
    for b in lit:
        t = n.new()
        n.add(q, b, t)
        q = t
    n.add_any(q, q)
    n.accept = {q}
    return n.to_dfa()


def contains(lit):
    """Sigma* lit Sigma*"""
    n = NFA()
    n.add_any(n.start, n.start)
    q = n.start
    for b in lit:
        t = n.new()
        n.add(q, b, t)
        q = t
    n.add_any(q, q)
    n.accept = {q}
    return n.to_dfa()


def prefix_then(lit, suffix_dfa):
    """lit . L(suffix)"""
    n = NFA()
    q = n.start
    for b in lit:
        t = n.new()
        n.add(q, b, t)
        q = t
    s, acc = embed(n, suffix_dfa)
    n.add(q, None, s)
    n.accept = acc
    return n.to_dfa()


def after_nonoverlapping_match(lit, suffix_dfa):
    """{ u : some match of `lit` found by str::match_indices (leftmost, non-overlapping scanning)
    ends at position i of u and u[i..] is in L(suffix) }"""
    # scanner DFA: state = length of the longest prefix of lit matched so far (KMP), reset to 0 after a full match
    m = len(lit)
    def step(k, c):
        while True:
            if k < m and lit[k] == c:
                return k + 1
            if k == 0:
                return 0
            # failure function: longest proper border
            k = fail[k]
    fail = [0] * (m + 1)
    k = 0
    for i in range(1, m):
        while k and lit[i] != lit[k]:
            k = fail[k]
        if lit[i] == lit[k]:
            k += 1
        fail[i + 1] = k
    n = NFA()
    st = [n.new() for _ in range(m)]
    n.add(n.start, None, st[0])
    s, acc = embed(n, suffix_dfa)
    for k_ in range(m):
        for c in range(N):
            t = step(k_, c)
            if t == m:
                # a match ends here: scanning restarts from scratch (non-overlapping) and the suffix test may start
                n.add(st[k_], c, st[0])
                n.add(st[k_], c, s)
            else:
                n.add(st[k_], c, st[t])
    n.accept = acc
    return n.to_dfa()
