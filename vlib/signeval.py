"""Abstract interpretation over the sign domain {neg, zero, pos} (values are sets of signs; booleans are
subsets of {True, False}) for small pure integer functions of the expanded syntax tree.  Unknown constructs
evaluate to 'anything', so the evaluator can only *miss*, never invent, a definite disagreement."""
NEG, ZERO, POS = "neg", "zero", "pos"
ANY = frozenset([NEG, ZERO, POS])
TF = frozenset([True, False])


def sign_of_int(n):
    return frozenset([NEG if n < 0 else ZERO if n == 0 else POS])


def _cmp(op, a, b):
    """a, b sign sets; comparison result as a set of booleans (exact for comparisons against zero)"""
    out = set()
    order = {NEG: -1, ZERO: 0, POS: 1}
    for x in a:
        for y in b:
            ox, oy = order[x], order[y]
            if y == ZERO or x == ZERO or ox != oy:
                val = {"<": ox < oy, ">": ox > oy, "<=": ox <= oy, ">=": ox >= oy, "==": ox == oy, "!=": ox != oy}[op]
                if ox == oy and x == ZERO:
                    val = {"<": False, ">": False, "<=": True, ">=": True, "==": True, "!=": False}[op]
                out.add(val)
            else:
                # same non-zero sign: magnitudes unknown
                out |= {True, False} if op in ("<", ">", "==", "!=", "<=", ">=") else set()
    return frozenset(out)


class SignEval:
    def __init__(self, havoc=None):
        self.havoc = havoc or {}         # local name -> sign set forced at its `let`

    def run(self, body, env):
        try:
            return self.block(body, dict(env))
        except _Ret as r:
            return r.v

    def block(self, stmts, env):
        val = None
        for st in stmts:
            k = st.get("k")
            if k == "Local":
                pat = st["pat"]
                if pat.get("k") == "PIdent":
                    nm = pat["name"]
                    env[nm] = self.havoc[nm] if nm in self.havoc else (self.expr(st["init"], env) if st.get("init") else ANY)
                elif pat.get("k") == "PStruct":
                    for fld in pat["fields"]:
                        nm = fld["pat"].get("name")
                        if nm and nm not in env:
                            env[nm] = self.havoc.get(nm, ANY)
                val = None
            elif k == "ExprStmt":
                v = self.expr(st["e"], env)
                val = None if st.get("semi") else v
            else:
                val = None
        return val

    def boolean(self, v):
        if isinstance(v, frozenset) and v <= TF and v:
            return v
        return TF

    def expr(self, e, env):
        k = e.get("k")
        if k == "Lit":
            l = e["lit"]
            if l["t"] == "bool":
                return frozenset([bool(l["v"])])
            if l["t"] == "int":
                return sign_of_int(int(l["v"]))
            return ANY
        if k == "Path":
            return env.get(e["path"], ANY)
        if k == "Paren":
            return self.expr(e["e"], env)
        if k == "Block":
            return self.block(e["body"], dict(env))
        if k == "Return":
            raise _Ret(self.expr(e["e"], env) if e.get("e") else None)
        if k == "Unary":
            v = self.expr(e["e"], env)
            if e["op"] == "!":
                return frozenset(not x for x in self.boolean(v))
            if e["op"] == "-":
                return frozenset({NEG: POS, POS: NEG, ZERO: ZERO}[x] for x in v) if v <= ANY else ANY
            return v
        if k == "If":
            c = self.boolean(self.expr(e["cond"], env)) if e["cond"].get("k") != "Let" else TF
            out = set()
            if True in c:
                v = self.block(e["then"], dict(env))
                out |= set(v) if isinstance(v, frozenset) else {None}
            if False in c:
                if e.get("else") is not None:
                    v = self.expr(e["else"], env)
                    out |= set(v) if isinstance(v, frozenset) else {None}
                else:
                    out.add(None)
            out.discard(None)
            return frozenset(out) if out else TF
        if k == "Binary":
            op = e["op"]
            if op in ("&&", "||"):
                a = self.boolean(self.expr(e["left"], env))
                b = self.boolean(self.expr(e["right"], env))
                out = set()
                for x in a:
                    if (op == "&&" and not x) or (op == "||" and x):
                        out.add(x)
                    else:
                        out |= set(b)
                return frozenset(out)
            a = self.expr(e["left"], env)
            b = self.expr(e["right"], env)
            if op in ("<", ">", "<=", ">=", "==", "!="):
                if isinstance(a, frozenset) and isinstance(b, frozenset) and a <= ANY and b <= ANY and a and b:
                    return _cmp(op, a, b)
                return TF
            if op == "^" and isinstance(a, frozenset) and isinstance(b, frozenset) and a <= ANY and b <= ANY:
                out = set()
                for x in a:
                    for y in b:
                        out |= {NEG} if (x == NEG) != (y == NEG) else ({ZERO, POS} if not (x == ZERO and y == ZERO) else {ZERO})
                return frozenset(out)
            if op in ("%",) and isinstance(a, frozenset) and a == frozenset([ZERO]):
                return frozenset([ZERO])
            if op == "*" and isinstance(a, frozenset) and isinstance(b, frozenset) and a <= ANY and b <= ANY:
                out = set()
                for x in a:
                    for y in b:
                        out.add(ZERO if ZERO in (x, y) else (POS if x == y else NEG))
                return frozenset(out)
            return ANY
        if k == "MethodCall":
            recv = self.expr(e["recv"], env)
            m = e["method"]
            if m in ("wrapping_rem", "rem_euclid", "checked_rem", "wrapping_rem_euclid") and recv == frozenset([ZERO]):
                return frozenset([ZERO])
            if m in ("abs", "wrapping_abs", "unsigned_abs") and isinstance(recv, frozenset) and recv <= ANY:
                return frozenset(POS if x != ZERO else ZERO for x in recv)
            if m in ("is_negative",) and isinstance(recv, frozenset) and recv <= ANY:
                return frozenset(x == NEG for x in recv)
            if m in ("is_positive",) and isinstance(recv, frozenset) and recv <= ANY:
                return frozenset(x == POS for x in recv)
            if m in ("signum",) and isinstance(recv, frozenset) and recv <= ANY:
                return recv
            return ANY
        return ANY


class _Ret(Exception):
    def __init__(self, v):
        self.v = v
