"""Rule results, known findings, evidence files, exit codes."""
import json
import os
import time

from .facts import VERIF, REPO, tree_hash, EngineError

KNOWN_FINDINGS = os.path.join(VERIF, "known_findings.json")


class Rule:
    """One rule of the catalogue evaluated on this run."""

    def __init__(self, ctx, rid, text, engine, floor=None, exhaustive=False):
        self.ctx = ctx
        self.rid = rid
        self.text = text
        self.engine = engine
        self.floor = floor
        self.exhaustive = exhaustive
        self.instances = 0          # rule instances (obligations) analysed
        self.nontrivial = set()     # distinct instance keys with a non-vacuous premise
        self.violations = []        # dicts
        self.samples = []
        self.analysed = {}          # free-form counts: functions, call sites, states, ...
        self.control_fired = None   # positive control outcome (None = rule has none)

    def inst(self, key, sample=None, nontrivial=True):
        self.instances += 1
        if nontrivial:
            self.nontrivial.add(key)
        if sample is not None and len(self.samples) < 4:
            self.samples.append(sample)

    def violate(self, key, msg, where=None):
        self.violations.append({"rule": self.rid, "key": key, "msg": msg, "where": where})

    def count(self, name, n=1):
        self.analysed[name] = self.analysed.get(name, 0) + n

    def control(self, fired, what):
        """Positive control: the rule must fire on a tiny synthetic violating fragment."""
        self.control_fired = bool(fired)
        if not fired:
            raise EngineError(f"{self.rid}: positive control did not fire ({what}) - the rule is blind")

    def finish(self):
        if self.floor is not None and self.instances < self.floor and not self.violations:
            raise EngineError(f"{self.rid}: only {self.instances} instances analysed, floor is {self.floor} (anchor moved? rule would pass vacuously)")


class Ctx:
    def __init__(self, prop, tier, seed):
        self.prop = prop
        self.tier = tier
        self.seed = seed
        self.rules = []
        self.t0 = time.time()
        self.notes = []
        self.not_decided = []
        self.assumptions = []
        self.extra = {}           # thorough tier: other configurations, rule self-test
        self.extra_rc = 0

    def rule(self, rid, text, engine, floor=None, exhaustive=False):
        r = Rule(self, rid, text, engine, floor, exhaustive)
        self.rules.append(r)
        return r

    # ------------------------------------------------------------------
    def load_known(self):
        if not os.path.exists(KNOWN_FINDINGS):
            return []
        with open(KNOWN_FINDINGS) as fh:
            data = json.load(fh)
        return [f for f in data.get("known", []) if f.get("property") == self.prop]

    def finalize(self, explanation):
        any_v = any(r.violations for r in self.rules)
        for r in self.rules:
            try:
                r.finish()
            except EngineError:
                if not any_v:
                    raise
        known = self.load_known()
        known_keys = {(k["rule"], k["key"]): k for k in known}
        all_v = [v for r in self.rules for v in r.violations]
        new_v = []
        seen_known = set()
        for v in all_v:
            kk = (v["rule"], v["key"])
            if kk in known_keys:
                seen_known.add(kk)
            else:
                new_v.append(v)
        if getattr(self, "partial", False) and not new_v:
            raise EngineError(self.notes[-1] if self.notes else "incomplete run")
        for kk in sorted(seen_known):
            k = known_keys[kk]
            print(f"KNOWN-FINDING: property={self.prop} {k['what']} [rule {kk[0]} key {kk[1]}]")
        stale = [k for kk, k in known_keys.items() if kk not in seen_known]
        for k in stale:
            print(f"note: known finding no longer reproduced (repaired or moved?): {k['rule']} {k['key']}")
        obligations = sum(r.instances for r in self.rules)
        violated = len(all_v)
        ev = {
            "property_id": self.prop,
            "tier": self.tier,
            "seed": self.seed,
            "level": "other",
            "coverage": {
                "explanation": explanation,
                "obligations": obligations,
                "discharged": obligations - violated,
                "evaluations": obligations,
                "distinct_nontrivial": sum(len(r.nontrivial) for r in self.rules),
                "rule": "one evaluation = one rule instance (a construct of /repo's current source matched by a rule's anchor); "
                        "distinct_nontrivial counts distinct (rule, instance-key) pairs whose premise is non-vacuous",
                "samples": [{"rule": r.rid, "instance": s} for r in self.rules for s in r.samples][:40],
                "rules": [
                    {
                        "id": r.rid, "text": r.text, "engine": r.engine, "instances": r.instances,
                        "distinct_nontrivial": len(r.nontrivial), "floor": r.floor,
                        "violations": len(r.violations), "exhaustive": r.exhaustive,
                        "analysed": r.analysed, "positive_control_fired": r.control_fired,
                    }
                    for r in self.rules
                ],
                "known_findings_reproduced": [list(k) for k in sorted(seen_known)],
                "not_decided": self.not_decided,
                "tree_hash": tree_hash(),
                "repo": REPO,
                "trusted_base": ["rustc nightly front-end (-Zunpretty=expanded, MIR)", "syn 2 parser", "hand-written reference tables under /verif/spec (from the WHATWG specification)", "the rule code"],
                "checker_cmd": f"./check {self.prop} --tier {self.tier}",
                **self.extra,
            },
            "assumptions": self.assumptions,
            "wall_s": round(time.time() - self.t0, 3),
            "violations": len(new_v) + (1 if self.extra_rc == 1 else 0),
        }
        evdir = os.environ.get("VERIF_EVIDENCE_DIR", os.path.join(VERIF, "evidence"))
        os.makedirs(evdir, exist_ok=True)
        evp = os.path.join(evdir, self.prop + ".json")
        with open(evp + ".tmp", "w") as fh:
            json.dump(ev, fh, indent=1, default=repr)
        os.replace(evp + ".tmp", evp)
        for r in self.rules:
            st = "ok" if not r.violations else f"{len(r.violations)} violation(s)"
            print(f"  {r.rid:8s} {r.instances:5d} instances  {st:18s} {r.text[:90]}")
        if new_v:
            rdir = os.path.join(evdir, "replay")
            os.makedirs(rdir, exist_ok=True)
            for i, v in enumerate(new_v):
                path = os.path.join(rdir, f"{self.prop}-{i}.json")
                with open(path, "w") as fh:
                    json.dump({"property": self.prop, **v}, fh, indent=1, default=repr)
                print(f"violation: rule={v['rule']} key={v['key']} :: {v['msg']}" + (f" @ {v['where']}" if v.get("where") else ""))
                print(f"VIOLATION property={self.prop} replay={path}")
            return 1
        if self.extra_rc:
            return self.extra_rc
        print(f"OK property={self.prop} tier={self.tier} rules={len(self.rules)} instances={obligations} known_findings={len(seen_known)} wall={ev['wall_s']}s")
        return 0
