"""E-SM: extract the tokenizer automaton from the macro-expanded `trait StateMachine`.

Every `*_state` default method is interpreted *symbolically* (never executed): the consumed
byte and each look-ahead byte are symbols ranging over {0..255, NONE}; `is_last_input()`,
`closing_quote()` and the two `StateMachineConditions` are environment symbols.  Path
enumeration with set splitting yields, per state, the complete list of leaves
(constraint -> ordered actions -> terminal).  An unknown statement/expression shape is an
EngineError (no verdict), never a silent skip.
"""
import copy

from .astlib import Index, walk
from .facts import EngineError

NONE = 256
ALL = (1 << 257) - 1
BYTES = (1 << 256) - 1

CURSOR_OPS = {
    "consume_ch", "unconsume_ch", "consume_several", "lookahead", "consume_until",
    "enter_ch_sequence_matching", "leave_ch_sequence_matching", "set_state",
    "break_on_end_of_input", "is_last_input", "closing_quote", "next_text_parsing_state",
}
TRACE_HELPERS = {"trace"}


def mask_of(vals):
    m = 0
    for v in vals:
        m |= 1 << v
    return m


def vals_of(mask):
    out = []
    i = 0
    while mask:
        if mask & 1:
            out.append(i)
        mask >>= 1
        i += 1
    return out


def fmt_mask(mask):
    """Human readable byte class."""
    if mask == ALL:
        return "any|NONE"
    parts = []
    if mask & (1 << NONE):
        parts.append("NONE")
    b = mask & BYTES
    if b == BYTES:
        parts.append("any")
        return "|".join(parts)
    n = bin(b).count("1")
    if n > 128:
        comp = vals_of(BYTES & ~b)
        parts.append("not[" + "".join(_chr(c) for c in comp) + "]")
    else:
        vs = vals_of(b)
        if not vs:
            return "|".join(parts) if parts else "none"
        # compress ranges
        s = ""
        i = 0
        while i < len(vs):
            j = i
            while j + 1 < len(vs) and vs[j + 1] == vs[j] + 1:
                j += 1
            if j - i >= 3:
                s += _chr(vs[i]) + "-" + _chr(vs[j])
            else:
                s += "".join(_chr(c) for c in vs[i:j + 1])
            i = j + 1
        parts.append("[" + s + "]")
    return "|".join(parts)


def _chr(c):
    if 33 <= c < 127 and chr(c) not in "[]-\\":
        return chr(c)
    return "\\x%02x" % c


class Path:
    __slots__ = ("vars", "sym", "last", "conds", "cq", "acts", "consumed", "pending", "closures", "seq_depth", "memchr", "looped")

    def __init__(self):
        self.vars = {}
        self.sym = {}
        self.last = None
        self.conds = {}
        self.cq = None
        self.acts = []
        self.consumed = 0
        self.pending = None
        self.closures = {}
        self.memchr = None
        self.looped = False

    def clone(self):
        p = Path()
        p.vars = dict(self.vars)
        p.sym = dict(self.sym)
        p.last = self.last
        p.conds = dict(self.conds)
        p.cq = self.cq
        p.acts = list(self.acts)
        p.consumed = self.consumed
        p.pending = self.pending
        p.closures = self.closures
        p.memchr = self.memchr
        p.looped = self.looped
        return p


class NeedFork(Exception):
    def __init__(self, what):
        self.what = what


def _is_self(n):
    return isinstance(n, dict) and n.get("k") == "Path" and n.get("path") in ("self", "this")


def _empty_stmt(st):
    if st.get("k") == "ExprStmt":
        e = st["e"]
        if e.get("k") == "Other" and e.get("src", "").strip() == "":
            return True
    return False


class Extractor:
    def __init__(self, action_names, cond_names, state_names):
        self.action_names = set(action_names)
        self.cond_names = set(cond_names)
        self.state_names = set(state_names)
        self.shape_counts = {}

    # ---------------------------------------------------------------- expressions
    def const_int(self, e):
        k = e.get("k")
        if k == "Lit" and e["lit"]["t"] == "int":
            return int(e["lit"]["v"])
        if k == "Lit" and e["lit"]["t"] == "byte":
            return int(e["lit"]["v"])
        if k == "Binary" and e["op"] in ("+", "-", "^", "*"):
            a, b = self.const_int(e["left"]), self.const_int(e["right"])
            return {"+": a + b, "-": a - b, "^": a ^ b, "*": a * b}[e["op"]]
        raise EngineError("E-SM: not a constant integer expression: " + str(e.get("s")))

    def eval_guard(self, e, path, binding):
        """Concrete evaluation of a guard for one candidate value; binding: var -> int."""
        k = e.get("k")
        if k == "Binary":
            op = e["op"]
            if op == "||":
                return self.eval_guard(e["left"], path, binding) or self.eval_guard(e["right"], path, binding)
            if op == "&&":
                return self.eval_guard(e["left"], path, binding) and self.eval_guard(e["right"], path, binding)
            a = self.eval_guard(e["left"], path, binding)
            b = self.eval_guard(e["right"], path, binding)
            if op == "==":
                return a == b
            if op == "!=":
                return a != b
            if op == "^":
                return a ^ b
            if op == "|":
                return a | b
            if op == "&":
                return a & b
            if op == "<=":
                return a <= b
            if op == ">=":
                return a >= b
            if op == "<":
                return a < b
            if op == ">":
                return a > b
            raise EngineError("E-SM: unknown guard operator " + op)
        if k == "Unary" and e["op"] == "!":
            return not self.eval_guard(e["e"], path, binding)
        if k == "Lit":
            t = e["lit"]["t"]
            if t in ("byte", "int"):
                return int(e["lit"]["v"])
            if t == "bool":
                return bool(e["lit"]["v"])
        if k == "Path":
            if e["path"] in binding:
                return binding[e["path"]]
        if k == "MethodCall" and _is_self(e["recv"]):
            m = e["method"]
            if m == "is_last_input":
                if path.last is None:
                    raise NeedFork("last")
                return path.last
            if m == "closing_quote":
                if path.cq is None:
                    raise NeedFork("cq")
                return path.cq
        raise EngineError("E-SM: unknown guard expression shape: " + str(e.get("s") or e.get("k")))

    def pat_mask(self, p, path):
        """(mask of matching symbols, name bound to the inner byte or None)."""
        k = p.get("k")
        if k == "PWild":
            return ALL, None
        if k == "PIdent" and p["name"] == "None" and "sub" not in p:
            return 1 << NONE, None
        if k == "PPath" and p["path"] == "None":
            return 1 << NONE, None
        if k == "PTupleStruct" and p["path"] == "Some" and len(p["elems"]) == 1:
            return self.inner_mask(p["elems"][0])
        raise EngineError("E-SM: unknown match pattern shape: " + str(p.get("s")))

    def inner_mask(self, p):
        k = p.get("k")
        if k == "PWild":
            return BYTES, None
        if k == "PIdent" and "sub" not in p:
            return BYTES, p["name"]
        if k == "PLit" and p["lit"]["t"] == "byte":
            return 1 << int(p["lit"]["v"]), None
        if k == "PRange" and p["inclusive"]:
            lo, hi = self.const_int(p["lo"]), self.const_int(p["hi"])
            return mask_of(range(lo, hi + 1)), None
        if k == "POr":
            m = 0
            for c in p["cases"]:
                cm, nm = self.inner_mask(c)
                if nm:
                    raise EngineError("E-SM: binding inside or-pattern")
                m |= cm
            return m, None
        if k == "PTuple" and not p["elems"]:
            return BYTES, None
        raise EngineError("E-SM: unknown byte pattern shape: " + str(p.get("s")))

    # ---------------------------------------------------------------- statements
    def fork(self, path, what):
        out = []
        if what == "last":
            for v in (False, True):
                q = path.clone()
                q.last = v
                out.append(q)
        elif what == "cq":
            for v in (0x22, 0x27):
                q = path.clone()
                q.cq = v
                out.append(q)
        else:
            raise EngineError("fork " + what)
        return out

    def run_block(self, stmts, path):
        """-> list of (path, terminal|None)"""
        live = [path]
        done = []
        saved_vars = path.vars
        for st in stmts:
            if _empty_stmt(st):
                continue
            nxt = []
            for p in live:
                for (q, term) in self.exec_stmt(st, p):
                    if term is None:
                        nxt.append(q)
                    else:
                        done.append((q, term))
            live = nxt
            if not live:
                break
        for p in live:
            p.vars = saved_vars if p.vars is not saved_vars else p.vars
        res = [(p, None) for p in live] + done
        for p, _ in res:
            # lexical scoping of `let` bindings
            pass
        return res

    def scoped(self, stmts, path):
        saved = dict(path.vars)
        res = self.run_block(stmts, path)
        for p, t in res:
            if t is None:
                p.vars = dict(saved)
        return res

    def exec_stmt(self, st, path):
        k = st.get("k")
        if k == "Local":
            return self.exec_local(st, path)
        if k == "ExprStmt":
            return self.exec_expr(st["e"], path)
        if k == "MacroStmt":
            raise EngineError("E-SM: unexpanded macro statement " + st.get("path", ""))
        raise EngineError("E-SM: unknown statement kind " + str(k))

    def exec_local(self, st, path):
        pat = st["pat"]
        init = st.get("init")
        if pat.get("k") == "PType":
            inner = pat["pat"]
        else:
            inner = pat
        name = None
        if inner.get("k") == "PIdent":
            name = inner["name"]
        elif inner.get("k") == "PWild":
            name = None
        else:
            raise EngineError("E-SM: unknown let pattern " + str(pat.get("s")))
        if init is None:
            raise EngineError("E-SM: let without initialiser")
        k = init.get("k")
        if k == "MethodCall" and _is_self(init["recv"]):
            m = init["method"]
            if m == "consume_ch":
                path.consumed += 1
                if "c0" in path.sym and name is not None:
                    raise EngineError("E-SM: second consume_ch binding in one dispatch")
                if name is not None:
                    path.sym["c0"] = ALL
                    path.vars = dict(path.vars)
                    path.vars[name] = "c0"
                else:
                    path.acts.append({"name": "@consume", "internal": True})
                return [(path, None)]
            if m == "lookahead":
                kk = self.const_int(init["args"][1])
                key = "la%d" % kk
                if key not in path.sym:
                    path.sym[key] = ALL
                path.vars = dict(path.vars)
                path.vars[name] = key
                return [(path, None)]
            if m == "next_text_parsing_state":
                path.vars = dict(path.vars)
                path.vars[name] = ("dyn", m)
                return [(path, None)]
        if k == "If":
            c = init["cond"]
            if c.get("k") == "MethodCall" and _is_self(c["recv"]) and c["method"] == "consume_until":
                needle = self.const_int(c["args"][0])
                if init["then"][0]["e"].get("s") != "Some (())" or init["else"]["body"][0]["e"].get("s") != "None":
                    raise EngineError("E-SM: unknown memchr prologue shape")
                path.consumed += 1
                path.memchr = needle
                path.sym["c0"] = ALL
                path.vars = dict(path.vars)
                path.vars[name] = "c0"
                return [(path, None)]
        if k == "Closure":
            path.closures = dict(path.closures)
            path.closures[name] = init
            return [(path, None)]
        raise EngineError("E-SM: unknown let initialiser: " + str(init.get("s") or k))

    def exec_expr(self, e, path):
        k = e.get("k")
        if k == "Other" and e.get("src", "").strip() == "":
            return [(path, None)]
        if k == "Tuple" and not e.get("elems"):
            return [(path, None)]            # `()` : an arm that does nothing
        if k == "Paren":
            return self.exec_expr(e["e"], path)
        if k == "Loop":
            if path.looped:
                raise EngineError("E-SM: nested loop in a state body")
            path.looped = True
            res = self.scoped(e["body"], path)
            out = []
            for p, t in res:
                if t is None:
                    t = {"t": "stay", "via": "loop-end"}
                out.append((p, t))
            return out
        if k == "Block":
            return self.scoped(e["body"], path)
        if k == "Continue":
            return [(path, {"t": "stay", "via": "continue"})]
        if k == "Match":
            return self.exec_match(e, path)
        if k == "If":
            return self.exec_if(e, path)
        if k == "Try":
            inner = e["e"]
            if inner.get("k") == "MethodCall" and _is_self(inner["recv"]):
                return self.exec_self_call(inner, path, True)
            raise EngineError("E-SM: unknown `?` operand: " + str(e.get("s")))
        if k == "MethodCall" and _is_self(e["recv"]):
            return self.exec_self_call(e, path, False)
        if k == "Return":
            return self.exec_return(e, path)
        raise EngineError("E-SM: unknown expression statement: " + str(e.get("s") or k))

    def exec_self_call(self, e, path, tried):
        m = e["method"]
        args = e["args"]
        if m in self.action_names:
            if len(args) < 2 or args[0].get("s") != "context" or args[1].get("s") != "input":
                raise EngineError("E-SM: action call with unexpected arguments: " + str(e.get("s")))
            extra = [self.const_int(a) for a in args[2:]]
            path.acts.append({"name": m, "try": tried, "args": extra})
            return [(path, None)]
        if tried:
            raise EngineError("E-SM: `?` on a non-action call " + m)
        if m == "unconsume_ch":
            path.consumed -= 1
            path.acts.append({"name": "@unconsume", "internal": True})
            return [(path, None)]
        if m == "consume_several":
            n = self.const_int(args[0])
            path.consumed += n
            path.acts.append({"name": "@consume_several", "internal": True, "args": [n]})
            return [(path, None)]
        if m == "enter_ch_sequence_matching":
            path.acts.append({"name": "@enter_seq", "internal": True})
            return [(path, None)]
        if m == "leave_ch_sequence_matching":
            path.acts.append({"name": "@leave_seq", "internal": True})
            return [(path, None)]
        if m == "set_state":
            a = args[0]
            if a.get("k") == "Path":
                pth = a["path"]
                if pth.startswith("Self::"):
                    st = pth[len("Self::"):]
                    if st not in self.state_names:
                        raise EngineError("E-SM: set_state to unknown state " + st)
                    path.pending = ("state", st)
                    return [(path, None)]
                v = path.vars.get(pth)
                if isinstance(v, tuple) and v[0] == "dyn":
                    path.pending = v
                    return [(path, None)]
                if pth in path.closures:
                    path.pending = ("closure", pth)
                    return [(path, None)]
            raise EngineError("E-SM: unknown set_state argument: " + str(a.get("s")))
        raise EngineError("E-SM: unknown call on self in a state body: " + m)

    def exec_return(self, e, path):
        v = e.get("value")
        if v is None:
            raise EngineError("E-SM: bare return")
        k = v.get("k")
        if k == "Call" and v["func"].get("k") == "Path":
            f = v["func"]["path"]
            if f == "Ok" and v["args"] and v["args"][0].get("s") == "()":
                if path.pending is None:
                    raise EngineError("E-SM: return Ok(()) without set_state")
                if path.pending[0] == "state":
                    return [(path, {"t": "goto", "state": path.pending[1], "inline": False})]
                if path.pending[0] == "dyn":
                    return [(path, {"t": "dyn", "getter": path.pending[1]})]
                raise EngineError("E-SM: return Ok(()) with closure state")
            if f.startswith("Self::"):
                st = f[len("Self::"):]
                if path.pending != ("state", st):
                    raise EngineError("E-SM: inline transition to %s without matching set_state" % st)
                if [a.get("s") for a in v["args"]] != ["self", "context", "input"] and [a.get("s") for a in v["args"]] != ["this", "context", "input"]:
                    raise EngineError("E-SM: inline transition with unexpected arguments")
                return [(path, {"t": "goto", "state": st, "inline": True})]
            if f in path.closures:
                if path.pending != ("closure", f):
                    raise EngineError("E-SM: entered-closure call without set_state(entered)")
                return [(path, {"t": "entered", "closure": f})]
        if k == "MethodCall" and _is_self(v["recv"]) and v["method"] == "break_on_end_of_input":
            return [(path, {"t": "break"})]
        raise EngineError("E-SM: unknown return value shape: " + str(v.get("s") or k))

    def exec_if(self, e, path):
        c = e["cond"]
        neg = False
        while c.get("k") == "Unary" and c["op"] == "!":
            neg = not neg
            c = c["e"]
        if not (c.get("k") == "MethodCall" and _is_self(c["recv"]) and not c["args"]):
            raise EngineError("E-SM: unknown if-condition shape: " + str(e["cond"].get("s")))
        m = c["method"]
        branches = []
        if m == "is_last_input":
            vals = [path.last] if path.last is not None else [False, True]
            for v in vals:
                q = path.clone() if len(vals) > 1 else path
                q.last = v
                branches.append((q, v != neg))
        elif m in self.cond_names:
            cur = path.conds.get(m)
            vals = [cur] if cur is not None else [False, True]
            for v in vals:
                q = path.clone() if len(vals) > 1 else path
                q.conds = dict(q.conds)
                q.conds[m] = v
                branches.append((q, v != neg))
        else:
            raise EngineError("E-SM: unknown condition method " + m)
        out = []
        for q, taken in branches:
            if taken:
                out += self.scoped(e["then"], q)
            elif "else" in e:
                el = e["else"]
                if el.get("k") == "Block":
                    out += self.scoped(el["body"], q)
                else:
                    out += self.exec_expr(el, q)
            else:
                out.append((q, None))
        return out

    def exec_match(self, e, path):
        sc = e["scrutinee"]
        if sc.get("k") != "Path" or sc["path"] not in path.vars or not isinstance(path.vars[sc["path"]], str):
            raise EngineError("E-SM: match on something that is not a consumed/look-ahead byte: " + str(sc.get("s")))
        key = path.vars[sc["path"]]
        # resolve environment forks needed by guards first
        try:
            return self._match_once(e, path, key)
        except NeedFork as nf:
            out = []
            for q in self.fork(path, nf.what):
                out += self.exec_match(e, q)
            return out

    def _match_once(self, e, path, key):
        remaining = path.sym[key]
        plans = []
        # memchr semantics: bytes other than the needle are skipped without dispatch
        if key == "c0" and path.memchr is not None:
            skip = remaining & BYTES & ~(1 << path.memchr)
            if skip:
                plans.append((skip, None, None))
            remaining &= ~skip
        for arm in e["arms"]:
            if not remaining:
                break
            pm, bind = self.pat_mask(arm["pat"], path)
            pm &= remaining
            if not pm:
                continue
            g = arm.get("guard")
            if g is not None:
                gm = 0
                for v in vals_of(pm):
                    b = {}
                    if bind:
                        b[bind] = v
                    if self.eval_guard(g, path, b):
                        gm |= 1 << v
                pm = gm
            if not pm:
                continue
            plans.append((pm, arm, bind))
            remaining &= ~pm
        if remaining:
            raise EngineError("E-SM: non-exhaustive match (symbols left: %s)" % fmt_mask(remaining))
        out = []
        for pm, arm, bind in plans:
            q = path.clone() if len(plans) > 1 else path
            q.sym = dict(q.sym)
            q.sym[key] = pm
            if arm is None:
                out.append((q, {"t": "stay", "via": "memchr-skip"}))
                continue
            if bind:
                q.vars = dict(q.vars)
                q.vars[bind] = key
            body = arm["body"]
            saved = dict(path.vars)
            if body.get("k") == "Block":
                res = self.scoped(body["body"], q)
            else:
                res = self.exec_expr(body, q)
            for p, t in res:
                if t is None:
                    p.vars = dict(saved)
            out += res
        return out

    # ---------------------------------------------------------------- states
    def extract_state(self, fnnode):
        path = Path()
        res = self.run_block(fnnode["body"], path)
        leaves = []
        entered = None
        for p, t in res:
            if t is None:
                raise EngineError("E-SM: state %s can fall off its body" % fnnode["name"])
            if t["t"] == "entered":
                if entered is not None or len(res) != 1:
                    raise EngineError("E-SM: unexpected enter-action prologue shape in " + fnnode["name"])
                entered = (p, t)
            else:
                leaves.append(self.mk_leaf(p, t))
        if entered is None:
            return {"enter": None, "leaves": leaves}
        p, t = entered
        acts = p.acts
        names = [a["name"] for a in acts]
        if names[0] != "@consume" or names[-1] != "@unconsume" or p.consumed != 0 or any(a.get("internal") for a in acts[1:-1]):
            raise EngineError("E-SM: unexpected enter-action prologue in " + fnnode["name"] + ": " + str(names))
        enter = acts[1:-1]
        clo = p.closures[t["closure"]]
        if [i.get("name") for i in clo["inputs"]] != ["this", "context", "input"]:
            raise EngineError("E-SM: entered closure parameters")
        body = clo["body"]
        if body.get("k") != "Block":
            raise EngineError("E-SM: entered closure body")
        res2 = self.run_block(body["body"], Path())
        for p2, t2 in res2:
            if t2 is None or t2["t"] == "entered":
                raise EngineError("E-SM: entered closure falls through in " + fnnode["name"])
            leaves.append(self.mk_leaf(p2, t2))
        return {"enter": enter, "leaves": leaves}

    def mk_leaf(self, p, t):
        la = {}
        for k, v in p.sym.items():
            if k.startswith("la"):
                la[int(k[2:])] = v
        term = dict(t)
        term["consumed"] = p.consumed
        return {
            "c0": p.sym.get("c0"),
            "la": la,
            "last": p.last,
            "conds": dict(p.conds),
            "cq": p.cq,
            "acts": p.acts,
            "term": term,
            "memchr": p.memchr,
        }


TEXT_STATES = ["data_state", "rcdata_state", "rawtext_state", "script_data_state", "plaintext_state", "cdata_section_state"]


class Automaton:
    def __init__(self, states, action_names, cond_names, text_state_map, shape_counts=None):
        self.states = states  # name -> {"enter":..., "leaves":[...]}
        self.action_names = action_names
        self.cond_names = cond_names
        self.text_state_map = text_state_map  # TextType variant -> state name

    def leaves(self, st):
        return self.states[st]["leaves"]

    def stats(self):
        n_eof = n_eoc = n_seq = 0
        for name, s in self.states.items():
            has_eof = any(l["c0"] is not None and l["c0"] & (1 << NONE) and l["last"] is True for l in s["leaves"])
            if has_eof:
                n_eof += 1
            if any(l["c0"] == (1 << NONE) and l["last"] is False and any(not a.get("internal") for a in l["acts"]) for l in s["leaves"]):
                n_eoc += 1
            n_seq += len(seq_arms(s))
        return {"states": len(self.states), "eof_states": n_eof, "eoc_action_states": n_eoc, "sequence_arms": n_seq,
                "leaves": sum(len(s["leaves"]) for s in self.states.values()),
                "enter_action_states": sum(1 for s in self.states.values() if s["enter"] is not None),
                "memchr_states": sum(1 for s in self.states.values() if any(l["memchr"] is not None for l in s["leaves"]))}


def seq_arms(state):
    """Distinct fully matched sequences of a state: list of (tuple of masks, leaf)."""
    out = []
    for l in state["leaves"]:
        names = [a["name"] for a in l["acts"]]
        if "@consume_several" in names:
            seq = [l["c0"]] + [l["la"][k] for k in sorted(l["la"])]
            out.append((tuple(seq), l))
    return out


def extract(ast=None, features=()):
    from . import facts
    if ast is None:
        ast = facts.expanded_ast("lol_html", features)
    idx = Index(ast)
    tr = [v for k, v in idx.traits.items() if k.endswith("state_machine::StateMachine")]
    if len(tr) != 1:
        raise EngineError("E-SM anchor: trait parser::state_machine::StateMachine not found")
    tr = tr[0]
    acts_tr = [v for k, v in idx.traits.items() if k.endswith("state_machine::StateMachineActions")]
    cond_tr = [v for k, v in idx.traits.items() if k.endswith("state_machine::StateMachineConditions")]
    if len(acts_tr) != 1 or len(cond_tr) != 1:
        raise EngineError("E-SM anchor: StateMachineActions/StateMachineConditions traits not found")
    action_names = [i["name"] for i in acts_tr[0]["items"] if i.get("k") == "Fn"]
    cond_names = [i["name"] for i in cond_tr[0]["items"] if i.get("k") == "Fn"]
    state_fns = [i for i in tr["items"] if i.get("k") == "Fn" and i["name"].endswith("_state") and i.get("body") is not None]
    # a state function is one with the state signature
    state_fns = [f for f in state_fns if (f["sig"]["output"] or "").replace(" ", "") == "StateResult"]
    state_names = [f["name"] for f in state_fns]
    ex = Extractor(action_names, cond_names, state_names)
    states = {}
    for f in state_fns:
        try:
            states[f["name"]] = ex.extract_state(f)
        except EngineError as err:
            raise EngineError(f"{err} [state {f['name']}]")
        states[f["name"]]["attrs"] = f.get("attrs", [])
    # next_text_parsing_state: TextType -> state
    ntp = [i for i in tr["items"] if i.get("k") == "Fn" and i["name"] == "next_text_parsing_state"]
    if len(ntp) != 1:
        raise EngineError("E-SM anchor: next_text_parsing_state")
    tmap = {}
    for n in walk(ntp[0]["body"]):
        if n.get("k") == "Match":
            for arm in n["arms"]:
                p = arm["pat"]
                b = arm["body"]
                if p.get("k") in ("PPath", "PIdent") and b.get("k") == "Path" and b["path"].startswith("Self::"):
                    tmap[(p.get("path") or p.get("name")).split("::")[-1]] = b["path"][6:]
                else:
                    raise EngineError("E-SM: next_text_parsing_state arm shape")
    if len(tmap) != 6:
        raise EngineError("E-SM: next_text_parsing_state should map 6 text types, found %d" % len(tmap))
    return Automaton(states, action_names, cond_names, tmap)


def describe_leaf(state, l):
    c = []
    if l["c0"] is not None:
        c.append("ch=" + fmt_mask(l["c0"]))
    for k in sorted(l["la"]):
        c.append("la%d=%s" % (k, fmt_mask(l["la"][k])))
    if l["last"] is not None:
        c.append("last=" + str(l["last"]).lower())
    for k, v in l["conds"].items():
        c.append("%s=%s" % (k, str(v).lower()))
    if l["cq"] is not None:
        c.append("cq=%r" % chr(l["cq"]))
    acts = [a["name"] + ("?" if a.get("try") else "") + ("(%s)" % ",".join(map(str, a["args"])) if a.get("args") else "") for a in l["acts"]]
    t = l["term"]
    if t["t"] == "goto":
        ts = ("--> #[inline] " if t["inline"] else "--> ") + t["state"]
        if t["consumed"] == 0:
            ts = "reconsume in " + t["state"]
    elif t["t"] == "dyn":
        ts = "--> dyn " + t["getter"]
    else:
        ts = t["t"]
    return "%s [%s] => (%s; %s)" % (state, " ".join(c), "; ".join(acts), ts)
