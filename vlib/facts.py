"""Fact extraction from /repo's current working tree (no execution of lol-html).

Facts are cached under /verif/.cache keyed by a hash over the analysed sources and the
engine binaries.  Everything here only *compiles front-ends* (macro expansion, type check,
MIR construction); no lol-html code is ever run.
"""
import fcntl
import hashlib
import json
import os
import shutil
import subprocess
import sys
import time

VERIF = os.path.dirname(os.path.dirname(os.path.abspath(__file__)))
REPO = os.environ.get("VERIF_REPO", "/repo")
CACHE = os.environ.get("VERIF_CACHE", os.path.join(VERIF, ".cache"))
ASTQ = os.path.join(VERIF, "engines", "astq", "target", "release", "astq")
MIRFACTS = os.path.join(VERIF, "engines", "mirfacts", "target", "release", "mirfacts")


class EngineError(Exception):
    """The machinery could not produce a verdict (exit code 2)."""


def _env():
    e = dict(os.environ)
    e["CARGO_NET_OFFLINE"] = "true"
    e.pop("RUSTC_WORKSPACE_WRAPPER", None)
    e.pop("RUSTFLAGS", None)
    return e


def _src_files():
    roots = ["src", "c-api/src", "c-api/include"]
    files = []
    for r in roots:
        base = os.path.join(REPO, r)
        for dp, dn, fn in os.walk(base):
            dn.sort()
            for f in sorted(fn):
                files.append(os.path.join(dp, f))
    for f in ["Cargo.toml", "Cargo.lock", "c-api/Cargo.toml"]:
        p = os.path.join(REPO, f)
        if os.path.exists(p):
            files.append(p)
    return files


_tree_hash = None


def tree_hash():
    global _tree_hash
    if _tree_hash is None:
        h = hashlib.sha256()
        for f in _src_files():
            h.update(os.path.relpath(f, REPO).encode())
            h.update(b"\0")
            with open(f, "rb") as fh:
                h.update(fh.read())
            h.update(b"\0")
        for b in (ASTQ, MIRFACTS):
            if os.path.exists(b):
                with open(b, "rb") as fh:
                    h.update(hashlib.sha256(fh.read()).digest())
        _tree_hash = h.hexdigest()[:20]
    return _tree_hash


def _cache_dir():
    d = os.path.join(CACHE, "facts-" + tree_hash())
    os.makedirs(d, exist_ok=True)
    return d


class _Lock:
    def __init__(self, name):
        os.makedirs(CACHE, exist_ok=True)
        self.path = os.path.join(CACHE, name + ".lock")

    def __enter__(self):
        self.fh = open(self.path, "w")
        fcntl.flock(self.fh, fcntl.LOCK_EX)

    def __exit__(self, *a):
        fcntl.flock(self.fh, fcntl.LOCK_UN)
        self.fh.close()


def _prune_cache(keep):
    """Keep the cache small: drop fact dirs of other tree hashes (oldest first, keep 3)."""
    try:
        ds = [d for d in os.listdir(CACHE) if d.startswith("facts-") and d != os.path.basename(keep)]
        ds.sort(key=lambda d: os.path.getmtime(os.path.join(CACHE, d)))
        for d in ds[:-3]:
            shutil.rmtree(os.path.join(CACHE, d), ignore_errors=True)
    except OSError:
        pass


def _run(cmd, cwd, env, what, timeout=900):
    t0 = time.time()
    p = subprocess.run(cmd, cwd=cwd, env=env, stdout=subprocess.PIPE, stderr=subprocess.PIPE, timeout=timeout)
    if p.returncode != 0:
        sys.stderr.write(p.stderr.decode(errors="replace")[-4000:])
        raise EngineError(f"{what} failed (exit {p.returncode}): {' '.join(cmd)}")
    return p, time.time() - t0


def _forget_fingerprints(target, names):
    """cargo's freshness cache would skip rustc (and so our wrapper / the unpretty output)."""
    for prof in ("debug", "release"):
        fp = os.path.join(target, prof, ".fingerprint")
        if os.path.isdir(fp):
            for d in os.listdir(fp):
                if any(d.startswith(n + "-") for n in names):
                    shutil.rmtree(os.path.join(fp, d), ignore_errors=True)


def capi_harness_dir():
    """A manifest that compiles /repo/c-api/src offline (c-api/Cargo.lock cannot resolve offline)."""
    d = os.path.join(_cache_dir(), "capi_harness")
    os.makedirs(d, exist_ok=True)
    man = f"""[package]
name = "lol_html_c_api"
version = "0.0.0"
edition = "2024"
publish = false

[features]
default = ["capi"]
capi = []

[lib]
name = "lolhtml"
path = "{REPO}/c-api/src/lib.rs"
crate-type = ["rlib"]

[dependencies]
encoding_rs = "0.8.35"
lol_html = {{ path = "{REPO}" }}
libc = "0"
thiserror = "2"

[workspace]
"""
    with open(os.path.join(d, "Cargo.toml"), "w") as fh:
        fh.write(man)
    shutil.copyfile(os.path.join(REPO, "Cargo.lock"), os.path.join(d, "Cargo.lock"))
    return d


def _crate_dir(crate):
    if crate == "lol_html":
        return REPO
    if crate == "capi":
        return capi_harness_dir()
    raise EngineError("unknown crate " + crate)


def profile():
    """build profile whose code is analysed: 'dev' (debug assertions and overflow checks on — the
    configuration the properties are stated for) or 'release' (VERIF_PROFILE=release; thorough tier)"""
    return "release" if os.environ.get("VERIF_PROFILE") == "release" else "dev"


def _feat_args(features):
    return ["--features", ",".join(features)] if features else []


def expanded_ast(crate="lol_html", features=()):
    """JSON syntax tree of the macro-expanded crate (rustc -Zunpretty=expanded, parsed with syn)."""
    rel = profile() == "release"
    tag = crate + ("+" + "+".join(features) if features else "") + ("+release" if rel else "")
    out_json = os.path.join(_cache_dir(), f"expanded-{tag}.json")
    with _Lock("facts"):
        if not os.path.exists(out_json):
            if not os.path.exists(ASTQ):
                raise EngineError("astq engine not built (run MANIFEST.setup_cmd)")
            target = os.path.join(CACHE, "target-exp")
            _forget_fingerprints(target, ["lol_html", "lol_html_c_api", "lolhtml"])
            cmd = ["cargo", "+nightly", "rustc", "--offline", "--lib", *_feat_args(features), *(["--release"] if rel else []), "--", "-Zunpretty=expanded"]
            env = _env()
            env["CARGO_TARGET_DIR"] = target
            p, dt = _run(cmd, _crate_dir(crate), env, f"macro expansion of {tag}")
            text = p.stdout.decode()
            if len(text) < 1000:
                raise EngineError(f"macro expansion of {tag} produced no output (cargo freshness cache?)")
            rs = os.path.join(_cache_dir(), f"expanded-{tag}.rs")
            with open(rs, "w") as fh:
                fh.write(text)
            _run([ASTQ, rs, out_json + ".tmp"], VERIF, _env(), "astq")
            os.replace(out_json + ".tmp", out_json)
            _prune_cache(_cache_dir())
    with open(out_json) as fh:
        return json.load(fh)


def nightly_sysroot():
    p, _ = _run(["rustc", "+nightly", "--print", "sysroot"], VERIF, _env(), "rustc sysroot")
    return p.stdout.decode().strip()


def mir_facts(crate="lol_html", features=(), release=False):
    """JSON facts from the type-checked program / MIR (rustc_private driver as workspace wrapper)."""
    release = release or profile() == "release"
    tag = crate + ("+" + "+".join(features) if features else "") + ("+release" if release else "")
    out_json = os.path.join(_cache_dir(), f"mir-{tag}.json")
    with _Lock("facts"):
        if not os.path.exists(out_json):
            if not os.path.exists(MIRFACTS):
                raise EngineError("mirfacts engine not built (run MANIFEST.setup_cmd)")
            target = os.path.join(CACHE, "target-mir")
            _forget_fingerprints(target, ["lol_html", "lol_html_c_api", "lolhtml"])
            env = _env()
            env["CARGO_TARGET_DIR"] = target
            env["RUSTC_WORKSPACE_WRAPPER"] = MIRFACTS
            env["RUSTFLAGS"] = "-Zmir-opt-level=0 -Awarnings"
            env["LD_LIBRARY_PATH"] = os.path.join(nightly_sysroot(), "lib") + ":" + env.get("LD_LIBRARY_PATH", "")
            outdir = os.path.join(_cache_dir(), f"mirout-{tag}")
            shutil.rmtree(outdir, ignore_errors=True)
            os.makedirs(outdir)
            env["MIRFACTS_OUT"] = outdir
            env["MIRFACTS_CRATES"] = "lol_html,lolhtml"
            cmd = ["cargo", "+nightly", "check", "--offline", "--lib", *_feat_args(features)]
            if release:
                cmd.append("--release")
            _run(cmd, _crate_dir(crate), env, f"MIR facts of {tag}")
            want = "lol_html" if crate == "lol_html" else "lolhtml"
            f = os.path.join(outdir, want + ".json")
            if not os.path.exists(f):
                raise EngineError(f"MIR fact file for {want} was not produced (cargo freshness cache?)")
            os.replace(f, out_json)
            shutil.rmtree(outdir, ignore_errors=True)
            _prune_cache(_cache_dir())
    with open(out_json) as fh:
        return json.load(fh)


def witness_results():
    """E-TYPE: compile the compile_fail witnesses and their (no_run) twins against REPO.
    -> {test name: 'ok' | 'FAILED'}; nothing of lol-html is executed (twins are no_run)."""
    import re
    out_json = os.path.join(_cache_dir(), "witness.json")
    with _Lock("facts"):
        if not os.path.exists(out_json):
            d = os.path.join(_cache_dir(), "witness")
            shutil.rmtree(d, ignore_errors=True)
            os.makedirs(os.path.join(d, "src"))
            shutil.copyfile(os.path.join(VERIF, "witness", "src", "lib.rs"), os.path.join(d, "src", "lib.rs"))
            man = open(os.path.join(VERIF, "witness", "Cargo.toml")).read().replace('path = "/repo"', 'path = "%s"' % REPO)
            with open(os.path.join(d, "Cargo.toml"), "w") as fh:
                fh.write(man)
            lock = os.path.join(REPO, "Cargo.lock")
            if os.path.exists(lock):
                shutil.copyfile(lock, os.path.join(d, "Cargo.lock"))
            env = _env()
            env["CARGO_TARGET_DIR"] = os.path.join(CACHE, "target-witness")
            p = subprocess.run(["cargo", "+nightly", "test", "--doc", "--offline"], cwd=d, env=env, stdout=subprocess.PIPE, stderr=subprocess.PIPE, timeout=1800)
            txt = p.stdout.decode(errors="replace")
            res = {}
            for m in re.finditer(r"^test src/lib.rs - (\S+) \(line \d+\)( - compile fail| - compile)? \.\.\. (ok|FAILED)", txt, re.M):
                kind = "compile_fail" if (m.group(2) or "").strip() == "- compile fail" else "twin"
                res[m.group(1) + ":" + kind] = m.group(3)
            if not res:
                sys.stderr.write(p.stderr.decode(errors="replace")[-3000:])
                raise EngineError("witness doctests produced no results (does the witness crate build?)")
            with open(out_json, "w") as fh:
                json.dump(res, fh)
            shutil.rmtree(d, ignore_errors=True)
    with open(out_json) as fh:
        return json.load(fh)
