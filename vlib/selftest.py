"""Both-ways testing of the rules: every scripted mutation (selftest/mutations.py) is applied to a
scratch copy of /repo (never /repo itself), the property's check is run against the copy, and the
named rule must report it.  Scratch copies and their caches are removed immediately."""
import importlib.util
import json
import os
import re
import shutil
import subprocess
import sys
import tempfile
from concurrent.futures import ThreadPoolExecutor
import queue

from .facts import VERIF, REPO


def load_mutations():
    p = os.path.join(VERIF, "selftest", "mutations.py")
    sp = importlib.util.spec_from_file_location("mutations", p)
    m = importlib.util.module_from_spec(sp)
    sp.loader.exec_module(m)
    return m.M


def run_one(mu, slot, base="/tmp"):
    work = tempfile.mkdtemp(prefix="vst_%s_" % mu["id"], dir=base)
    repo = os.path.join(work, "repo")
    try:
        subprocess.run(["rsync", "-a", "--exclude", "target", "--exclude", ".git", "--exclude", "/fuzz", "--exclude", "/js-api", "--exclude", "/media", REPO + "/", repo + "/"], check=True)
        fp = os.path.join(repo, mu["file"])
        s = open(fp).read()
        if s.count(mu["find"]) != 1:
            return mu["id"], {"status": "stale", "detail": "pattern occurs %d times in %s" % (s.count(mu["find"]), mu["file"])}
        open(fp, "w").write(s.replace(mu["find"], mu["repl"], 1))
        env = dict(os.environ)
        env["VERIF_REPO"] = repo
        env["VERIF_CACHE"] = os.path.join(base, "vstcache_%d_%d" % (os.getpid(), slot))
        env["VERIF_EVIDENCE_DIR"] = os.path.join(work, "evidence")
        env.pop("VERIF_TIER", None)
        q = subprocess.run([os.path.join(VERIF, "check"), mu["prop"], "--tier", "quick"], env=env, stdout=subprocess.PIPE, stderr=subprocess.PIPE, cwd=VERIF)
        out = q.stdout.decode(errors="replace")
        rules = sorted(set(re.findall(r"^violation: rule=(\S+)", out, re.M)))
        if q.returncode == 2:
            return mu["id"], {"status": "engine-error", "detail": q.stderr.decode(errors="replace")[-300:]}
        if mu["rule"] in rules:
            return mu["id"], {"status": "detected", "rules": rules}
        return mu["id"], {"status": "MISSED", "rules": rules}
    finally:
        shutil.rmtree(work, ignore_errors=True)


def load_benign():
    p = os.path.join(VERIF, "selftest", "benign.py")
    sp = importlib.util.spec_from_file_location("benign", p)
    m = importlib.util.module_from_spec(sp)
    sp.loader.exec_module(m)
    return m.B


ALL = ["C%02d" % i for i in range(1, 19)]


def run_benign(bn, slot, base="/tmp"):
    work = tempfile.mkdtemp(prefix="vsb_%s_" % bn["id"], dir=base)
    repo = os.path.join(work, "repo")
    try:
        subprocess.run(["rsync", "-a", "--exclude", "target", "--exclude", ".git", "--exclude", "/fuzz", "--exclude", "/js-api", "--exclude", "/media", REPO + "/", repo + "/"], check=True)
        for f, a, b in bn["edits"]:
            fp = os.path.join(repo, f)
            s = open(fp).read()
            if a not in s:
                return bn["id"], {"status": "stale", "detail": "pattern not found in " + f}
            open(fp, "w").write(s.replace(a, b, 1))
        env = dict(os.environ)
        env["VERIF_REPO"] = repo
        env["VERIF_CACHE"] = os.path.join(base, "vstcache_%d_%d" % (os.getpid(), slot))
        env["VERIF_EVIDENCE_DIR"] = os.path.join(work, "evidence")
        env.pop("VERIF_TIER", None)
        alarms = {}
        for pid in (bn.get("props") or ALL):
            q = subprocess.run([os.path.join(VERIF, "check"), pid, "--tier", "quick"], env=env, stdout=subprocess.PIPE, stderr=subprocess.PIPE, cwd=VERIF)
            if q.returncode != 0:
                out = q.stdout.decode(errors="replace")
                alarms[pid] = sorted(set(re.findall(r"^violation: rule=(\S+)", out, re.M))) or ["exit %d: %s" % (q.returncode, q.stderr.decode(errors="replace")[-200:])]
        return bn["id"], {"status": "FALSE-ALARM" if alarms else "silent", "alarms": alarms}
    finally:
        shutil.rmtree(work, ignore_errors=True)


def run(props=None, jobs=4, ids=None):
    M = [m for m in load_mutations() if (props is None or m["prop"] in props) and (ids is None or m["id"] in ids)]
    q = queue.Queue()
    for s in range(jobs):
        q.put(s)
    results = {}

    def work(mu):
        slot = q.get()
        try:
            return run_one(mu, slot)
        finally:
            q.put(slot)
    Bn = [b for b in load_benign() if (ids is None or b["id"] in ids) and (props is None or (b.get("props") is None) or set(props) & set(b["props"]))]

    def workb(bn):
        slot = q.get()
        try:
            return run_benign(bn, slot)
        finally:
            q.put(slot)
    with ThreadPoolExecutor(max_workers=jobs) as ex:
        for mid, res in ex.map(work, M):
            results[mid] = res
        for bid, res in ex.map(workb, Bn):
            results[bid] = res
    M = M + [dict(id=b["id"], prop="-", rule="(benign)") for b in Bn]
    for s in range(jobs):
        shutil.rmtree("/tmp/vstcache_%d_%d" % (os.getpid(), s), ignore_errors=True)
    return M, results


def for_property(pid):
    """thorough tier: apply every scripted mutation of this property (and the behaviour-preserving
    edits that name it) to scratch copies of REPO and record whether the intended rule reports them.
    Informational only: on a tree that was itself modified the patterns may be stale."""
    M = [m for m in load_mutations() if m["prop"] == pid]
    Bn = [dict(b, props=[pid]) for b in load_benign() if b.get("props") is None or pid in b["props"]]
    jobs = int(os.environ.get("VERIF_JOBS", "3"))
    q = queue.Queue()
    for s_ in range(jobs):
        q.put(s_)
    res = {}

    def wm(mu):
        slot = q.get()
        try:
            return run_one(mu, slot)
        finally:
            q.put(slot)

    def wb(bn):
        slot = q.get()
        try:
            return run_benign(bn, slot)
        finally:
            q.put(slot)
    with ThreadPoolExecutor(max_workers=jobs) as ex:
        fm = list(ex.map(wm, M))
        fb = list(ex.map(wb, Bn))
    for s_ in range(jobs):
        shutil.rmtree("/tmp/vstcache_%d_%d" % (os.getpid(), s_), ignore_errors=True)
    out = {"mutations": [], "benign_edits": []}
    for m, (mid, r) in zip(M, fm):
        out["mutations"].append({"id": mid, "rule": m["rule"], "file": m["file"], "status": r["status"], "reported_by": r.get("rules")})
    for b, (bid, r) in zip(Bn, fb):
        out["benign_edits"].append({"id": bid, "note": b.get("note"), "status": r["status"], "alarms": r.get("alarms") or None})
    out["summary"] = "%d/%d scripted mutations reported by the intended rule; %d/%d behaviour-preserving edits silent" % (
        sum(1 for x in out["mutations"] if x["status"] == "detected"), len(out["mutations"]),
        sum(1 for x in out["benign_edits"] if x["status"] == "silent"), len(out["benign_edits"]))
    print("rule self-test: " + out["summary"])
    return out


def main(prop, seed):
    props = [prop] if prop and prop.startswith("C") else None
    ids = prop.split(",") if prop and not prop.startswith("C") else None
    M, results = run(props, jobs=int(os.environ.get("VERIF_JOBS", "4")), ids=ids)
    bad = 0
    for m in M:
        r = results[m["id"]]
        print("%-6s %-4s %-7s %-13s %s" % (m["id"], m["prop"], m["rule"], r["status"], r.get("rules") or r.get("alarms") or r.get("detail", "")))
        if r["status"] not in ("detected", "silent"):
            bad += 1
    print("selftest: %d mutations, %d detected by the intended rule" % (len(M), len(M) - bad))
    return 0 if bad == 0 else 2
