"""Helpers over the JSON facts produced by engines/mirfacts (type-checked program + MIR)."""
import re
from .facts import mir_facts, EngineError


def strip_generics(s):
    """remove balanced <...> groups (and a preceding '::')"""
    out = []
    depth = 0
    i = 0
    while i < len(s):
        c = s[i]
        if c == "<":
            # keep leading '<' of "<T as Trait>::x" (depth 0 at start or after space/paren)
            depth += 1
            if depth == 1 and out and out[-1] == ":" and len(out) >= 2 and out[-2] == ":":
                out.pop(); out.pop()
            i += 1
            continue
        if c == ">" and depth > 0 and not (i > 0 and s[i - 1] == "-"):
            depth -= 1
            i += 1
            continue
        if depth == 0:
            out.append(c)
        i += 1
    return "".join(out)


def last_seg(p):
    return p.split("::")[-1]


def short_ty(t):
    """'transform_stream::dispatcher::Dispatcher<C, O>' -> 'Dispatcher'"""
    t = t.strip()
    t = re.sub(r"^&('[a-z_]+ )?(mut )?", "", t)
    t = strip_generics(t)
    return t.split("::")[-1]


class Fn:
    def __init__(self, rec):
        self.rec = rec
        self.path = rec["path"]
        self.blocks = rec["blocks"]
        self.trait = last_seg(rec["trait"]) if rec["trait"] else None
        self.owner = short_ty(rec["self_ty"]) if rec["self_ty"] else None
        p = self.path
        m = re.search(r"(::\{closure#\d+\})+$", p)
        self.closure_suffix = m.group(0) if m else ""
        base = p[: len(p) - len(self.closure_suffix)]
        if rec["impl"] == "<trait default>":
            self.owner = last_seg(rec["trait"])
            self.trait = None
        self.name = last_seg(strip_generics(base)) if not base.endswith(">") else last_seg(base)
        # canonical short key
        if self.owner:
            self.key = f"{self.owner}::{self.name}" + (f"[{self.trait}]" if self.trait else "")
        else:
            self.key = strip_generics(base)
        self.key += self.closure_suffix
        self._succ = None
        self._dom = None
        self._pdom = None

    # ---- CFG ---------------------------------------------------------------
    def succ(self, bi, include_unwind=False):
        t = self.blocks[bi]["term"]
        k = t["k"]
        if k == "goto":
            return [t["t"]]
        if k == "switch":
            return [x[1] for x in t["ts"]] + [t["else"]]
        if k in ("call",):
            return [t["t"]] if t["t"] >= 0 else []
        if k in ("drop", "assert"):
            return [t["t"]]
        return []

    def succs(self):
        if self._succ is None:
            self._succ = [self.succ(i) for i in range(len(self.blocks))]
        return self._succ

    def preds(self):
        pr = [[] for _ in self.blocks]
        for i, ss in enumerate(self.succs()):
            for s in ss:
                pr[s].append(i)
        return pr

    def reachable_blocks(self, start=0, avoid=()):
        seen = set()
        todo = [start]
        av = set(avoid)
        while todo:
            b = todo.pop()
            if b in seen or b in av:
                continue
            seen.add(b)
            todo += self.succs()[b]
        return seen

    def dominators(self):
        """dom[b] = set of blocks dominating b (iterative; functions are small)."""
        if self._dom is None:
            n = len(self.blocks)
            reach = self.reachable_blocks()
            allb = set(reach)
            dom = {b: set(allb) for b in reach}
            dom[0] = {0}
            pr = self.preds()
            changed = True
            order = sorted(reach)
            while changed:
                changed = False
                for b in order:
                    if b == 0:
                        continue
                    ps = [p for p in pr[b] if p in reach]
                    if ps:
                        new = set.intersection(*[dom[p] for p in ps]) | {b}
                    else:
                        new = {b}
                    if new != dom[b]:
                        dom[b] = new
                        changed = True
            self._dom = dom
        return self._dom

    def dominates(self, a, b):
        d = self.dominators()
        return b in d and a in d[b]

    def calls(self, pat=None):
        """yield (block index, term) of call terminators whose callee (resolved or raw) matches regex pat"""
        rx = re.compile(pat) if pat else None
        for i, b in enumerate(self.blocks):
            t = b["term"]
            if t["k"] == "call":
                if rx is None or rx.search(callee_key(t)) or rx.search(t["callee"]) or rx.search(t["raw"]):
                    yield i, t

    def reachable_without_edges(self, start, removed_blocks=(), removed_edges=()):
        seen = set()
        todo = [start]
        rb = set(removed_blocks)
        re_ = set(removed_edges)
        while todo:
            b = todo.pop()
            if b in seen or b in rb:
                continue
            seen.add(b)
            for s2 in self.succs()[b]:
                if (b, s2) not in re_:
                    todo.append(s2)
        return seen

    def return_blocks(self):
        return [i for i, b in enumerate(self.blocks) if b["term"]["k"] == "return" and not b.get("cleanup")]

    def can_reach_without(self, src, dst_set, avoid_set):
        """is some block of dst_set reachable from src without entering avoid_set blocks"""
        seen = set()
        todo = [src]
        while todo:
            b = todo.pop()
            if b in seen:
                continue
            seen.add(b)
            if b in dst_set:
                return True
            if b in avoid_set and b != src:
                continue
            todo += self.succs()[b]
        return False

    def loc(self):
        return self.rec["span"]

    # ---- provenance --------------------------------------------------------
    def defs_of(self, local):
        """all definitions of a whole local: list of ('assign', bi, stmt) / ('call', bi, term)"""
        out = []
        for bi, b in enumerate(self.blocks):
            for st in b["stmts"]:
                if st["k"] == "assign" and st["p"]["local"] == local and not st["p"]["proj"]:
                    out.append(("assign", bi, st))
            t = b["term"]
            if t["k"] == "call" and t["dest"]["local"] == local and not t["dest"]["proj"]:
                out.append(("call", bi, t))
        return out

    def name_of(self, local):
        return self.rec["names"].get(str(local))

    def describe_place(self, p, depth=0):
        base = self.describe_local(p["local"], depth)
        for e in p["proj"]:
            if e == "*":
                continue
            if isinstance(e, dict) and "f" in e:
                base += "." + e["f"]
            elif isinstance(e, dict) and "variant" in e:
                base += " as " + e["variant"]
            elif isinstance(e, dict) and "index" in e:
                base += "[" + self.describe_local(e["index"], depth + 1) + "]"
            else:
                base += "[..]"
        return base

    def describe_operand(self, o, depth=0):
        if o["k"] == "const":
            if "fn" in o:
                return "fn " + o["fn"]
            if "static" in o:
                return "static " + o["static"]
            return "const " + o["v"] + ": " + o["ty"]
        if o["k"] in ("copy", "move"):
            return self.describe_place(o["p"], depth)
        return "?"

    def deep(self, o):
        """describe an operand looking through named locals (only arguments keep their names)"""
        self._deep = True
        try:
            return self.describe_operand(o)
        finally:
            self._deep = False

    def describe_local(self, local, depth=0):
        """canonical description of what a temp holds: follows single-definition chains of
        refs / copies / calls up to named variables and arguments."""
        nm = self.name_of(local)
        if nm is not None and not (getattr(self, "_deep", False) and local > self.rec["arg_count"] and len(self.defs_of(local)) == 1):
            return nm
        if depth > 12:
            return "_%d" % local
        ds = self.defs_of(local)
        if len(ds) != 1:
            if 1 <= local <= self.rec["arg_count"]:
                return "arg%d" % local
            return "_%d{%d defs}" % (local, len(ds))
        kind, bi, x = ds[0]
        if kind == "call":
            return "%s(%s)" % (callee_key(x), ", ".join(self.describe_operand(a, depth + 1) for a in x["args"]))
        rv = x["rv"]
        k = rv["k"]
        if k == "use":
            return self.describe_operand(rv["o"], depth + 1)
        if k in ("ref", "rawptr"):
            return self.describe_place(rv["p"], depth + 1)
        if k == "cast":
            return self.describe_operand(rv["o"], depth + 1)
        if k == "agg":
            return "%s{%s}" % (rv["name"] or rv["what"], ", ".join(self.describe_operand(a, depth + 1) for a in rv["ops"]))
        if k == "bin":
            return "(%s %s %s)" % (self.describe_operand(rv["a"], depth + 1), rv["op"], self.describe_operand(rv["b"], depth + 1))
        if k == "un":
            return "%s(%s)" % (rv["op"], self.describe_operand(rv["o"], depth + 1))
        if k == "discr":
            return "discr(" + self.describe_place(rv["p"], depth + 1) + ")"
        return "_%d" % local

    def root_place(self, op, depth=0):
        """follow single-definition copies / (re)borrows to the underlying place:
        returns (base_local, [projection elems]) or None. Ignores debug names."""
        if op["k"] not in ("copy", "move"):
            return None
        return self._root_place_p(op["p"], depth)

    def _root_place_p(self, p, depth=0):
        loc = p["local"]
        proj = list(p["proj"])
        if depth > 12 or 1 <= loc <= self.rec["arg_count"]:
            return (loc, proj)
        ds = self.defs_of(loc)
        if len(ds) != 1 or ds[0][0] != "assign":
            return (loc, proj)
        rv = ds[0][2]["rv"]
        inner = None
        if rv["k"] in ("use", "cast") and rv["o"]["k"] in ("copy", "move"):
            inner = rv["o"]["p"]
        elif rv["k"] in ("ref", "rawptr"):
            inner = rv["p"]
        if inner is None:
            return (loc, proj)
        r = self._root_place_p(inner, depth + 1)
        if r is None:
            return (loc, proj)
        return (r[0], r[1] + proj)

    def field_path(self, op):
        """'arg1|Variant.field|field' style canonical path of the place an operand denotes"""
        r = self.root_place(op)
        if r is None:
            return None
        loc, proj = r
        parts = []
        for e in proj:
            if e == "*":
                continue
            if isinstance(e, dict) and "f" in e:
                parts.append(short_ty(e["of"]) + "." + e["f"])
            elif isinstance(e, dict) and "variant" in e:
                continue
            else:
                parts.append("[]")
        base = self.name_of(loc) if 1 <= loc <= self.rec["arg_count"] else "_%d" % loc
        return (base or "arg%d" % loc) + "".join("|" + x for x in parts)

    def err_return_blocks(self):
        """blocks that build the function's Err(..) return value"""
        out = []
        for bi, b in enumerate(self.blocks):
            if b.get("cleanup"):
                continue
            for st in b["stmts"]:
                if st["k"] == "assign" and st["p"]["local"] == 0 and not st["p"]["proj"] and st["rv"]["k"] == "agg" and st["rv"]["name"].endswith("Result::Err"):
                    out.append(bi)
            t = b["term"]
            if t["k"] == "call" and t["dest"]["local"] == 0 and not t["dest"]["proj"] and "from_residual" in t["callee"]:
                # `?` propagating an error: the residual is written straight into the return place
                out.append(bi)
            elif t["k"] == "call" and t["dest"]["local"] == 0 and not t["dest"]["proj"] and self.rec["locals"][0].startswith("std::result::Result") and t["callee"] and "Result::Ok" not in t["callee"]:
                # tail call of a fallible function: its Err becomes ours
                out.append(bi)
        return out

    def switch_edges(self, bi):
        """for a call block whose bool result is switched on (directly, or after being kept in a local):
        (false_succ, true_succ); self.last_switch_block is the block of that switch"""
        t = self.blocks[bi]["term"]
        dest = t["dest"]["local"]
        cands = []
        for sb, b in enumerate(self.blocks):
            sw = b["term"]
            if sw["k"] != "switch" or not self.dominates(bi, sb) or sw["d"]["k"] not in ("copy", "move"):
                continue
            loc = sw["d"]["p"]["local"]
            rp = self._root_place_p(sw["d"]["p"])
            if loc == dest or (rp is not None and rp[0] == dest and not rp[1]):
                cands.append(sb)
        if not cands:
            return None
        sb = min(cands, key=lambda x: len(self.dominators()[x]))
        sw = self.blocks[sb]["term"]
        f = [x[1] for x in sw["ts"] if x[0] == 0]
        if len(f) != 1:
            return None
        self.last_switch_block = sb
        return f[0], sw["else"]


def callee_key(t):
    """canonical short name of a call's callee: 'Owner::method' / 'Trait::method' / 'path::fn'"""
    c = t["callee"] or t["raw"]
    c2 = c
    m = re.search(r"<impl (.+) for ([^<>]+(<.*>)?)>::([A-Za-z0-9_]+)((::\{closure#\d+\})*)$", c2)
    if m:
        return f"{short_ty(m.group(2))}::{m.group(4)}[{last_seg(strip_generics(m.group(1)))}]" + m.group(5)
    m = re.search(r"<impl ([^<>]+(<.*>)?)>::([A-Za-z0-9_]+)((::\{closure#\d+\})*)$", c2)
    if m:
        return f"{short_ty(m.group(1))}::{m.group(3)}" + m.group(4)
    m = re.match(r"^<(.+) as (.+)>::([A-Za-z0-9_]+)$", c2)
    if m:
        return f"{short_ty(m.group(1))}::{m.group(3)}[{last_seg(strip_generics(m.group(2)))}]"
    s = strip_generics(c2)
    parts = s.split("::")
    if len(parts) >= 2:
        return parts[-2] + "::" + parts[-1]
    return s


class Mir:
    def __init__(self, crate="lol_html", features=(), release=False):
        self.raw = mir_facts(crate, features, release)
        self.fns = [Fn(r) for r in self.raw["fns"]]
        bypath = {f.path: f for f in self.fns}
        for f in self.fns:
            if f.closure_suffix:
                base = f.path[: len(f.path) - len(f.closure_suffix)]
                par = bypath.get(base)
                if par is not None:
                    f.key = par.key + f.closure_suffix
                    f.owner = par.owner
        self.by_key = {}
        for f in self.fns:
            self.by_key.setdefault(f.key, []).append(f)
        self.adts = {a["path"]: a for a in self.raw["adts"]}
        self.impls = self.raw["impls"]
        self.statics = self.raw["statics"]

    def is_test_fn(self, f):
        return "::tests::" in f.path or "::test_utils" in f.path or f.path.startswith("tests::")

    def fn(self, key):
        r = [f for f in self.by_key.get(key, [])]
        if len(r) != 1:
            raise EngineError(f"anchor fn {key}: expected exactly 1 MIR body, found {len(r)}")
        return r[0]

    def fns_matching(self, rx):
        r = re.compile(rx)
        return [f for f in self.fns if r.search(f.key)]

    def callers_of(self, rx):
        """[(fn, block, term)] over all non-test functions calling something matching rx"""
        out = []
        r = re.compile(rx)
        for f in self.fns:
            for i, t in f.calls():
                if r.search(callee_key(t)) or r.search(t["callee"]) or r.search(t["raw"]):
                    out.append((f, i, t))
        return out

    def adt(self, short):
        r = [a for p, a in self.adts.items() if p.split("::")[-1] == short]
        if len(r) != 1:
            raise EngineError(f"anchor ADT {short}: expected 1, found {len(r)}")
        return r[0]

    def field_writes(self, owner_short, field):
        """[(fn, block, stmt)] assignments whose place ends in <owner>.<field> (any depth)"""
        out = []
        for f in self.fns:
            for bi, b in enumerate(f.blocks):
                for st in b["stmts"]:
                    if st["k"] != "assign":
                        continue
                    pj = st["p"]["proj"]
                    for e in pj:
                        pass
                    # last field projection
                    lastf = None
                    for e in pj:
                        if isinstance(e, dict) and "f" in e:
                            lastf = e
                    if lastf and lastf["f"] == field and short_ty(lastf["of"]) == owner_short and pj and pj[-1] is lastf:
                        out.append((f, bi, st))
        return out


_mir = {}


def load(crate="lol_html", features=(), release=False):
    k = (crate, tuple(features), release)
    if k not in _mir:
        _mir[k] = Mir(crate, features, release)
    return _mir[k]


# ---------------------------------------------------------------------------------------------
# value provenance atoms and generic guard detection (used to auto-discharge *unreviewed* sites
# of inventory rules: deliberately generous — it can only turn a report into a non-report)
ACCESSORS = re.compile(r"(^|::)(len|is_empty|is_some|is_none|is_ok|is_err|as_ref|as_mut|as_slice|as_bytes|as_str|deref|deref_mut|borrow|borrow_mut|get|get_mut|first|last|clone|copied|cloned|into|from|checked_sub|checked_add|min|max|saturating_sub|capacity|iter|position|find|memchr\d?)$")


def atoms_of_place(f, p, depth=0, seen=None):
    seen = set() if seen is None else seen
    out = set()
    for e in p["proj"]:
        if isinstance(e, dict) and "index" in e:
            out |= atoms_of_local(f, e["index"], depth + 1, seen)
    loc, proj = f._root_place_p(p)
    if 1 <= loc <= f.rec["arg_count"]:
        parts = [e["f"] for e in proj if isinstance(e, dict) and "f" in e]
        out.add("arg%d" % loc + "".join("." + x for x in parts))
        return out
    # tuple fields of checked arithmetic etc.: same source as the whole local
    return out | atoms_of_local(f, loc, depth + 1, seen)


def atoms_of_operand(f, o, depth=0, seen=None):
    if o["k"] in ("copy", "move"):
        return atoms_of_place(f, o["p"], depth, seen)
    return set()


def atoms_of_local(f, loc, depth=0, seen=None):
    seen = set() if seen is None else seen
    if loc in seen or depth > 16:
        return set()
    seen.add(loc)
    if 1 <= loc <= f.rec["arg_count"]:
        return {"arg%d" % loc}
    out = set()
    for kind, bi, x in f.defs_of(loc):
        if kind == "call":
            out.add("call@%d" % bi)
            if re.search(r"(^|::)(min|clamp|saturating_\w+|checked_\w+|wrapping_\w+)$", callee_key(x)):
                out.add("clamped")
            if ACCESSORS.search(callee_key(x)):
                for a in x["args"]:
                    out |= atoms_of_operand(f, a, depth + 1, seen)
            continue
        rv = x["rv"]
        k = rv["k"]
        if k in ("use", "cast", "un", "repeat") and "o" in rv:
            out |= atoms_of_operand(f, rv["o"], depth + 1, seen)
        elif k in ("ref", "rawptr", "discr") and "p" in rv:
            out |= atoms_of_place(f, rv["p"], depth + 1, seen)
        elif k == "bin":
            out |= atoms_of_operand(f, rv["a"], depth + 1, seen) | atoms_of_operand(f, rv["b"], depth + 1, seen)
        elif k == "agg":
            for a in rv["ops"]:
                out |= atoms_of_operand(f, a, depth + 1, seen)
    # locals assigned through projections (x.0 = ..) are ignored: generous only matters one way
    return out


def site_atoms(f, bi):
    t = f.blocks[bi]["term"]
    if t["k"] == "assert":
        return atoms_of_operand(f, t["cond"])
    if t["k"] == "call":
        out = set()
        for a in t["args"]:
            out |= atoms_of_operand(f, a)
        return out
    return set()


def guarding_branches(f, bi):
    """switch blocks that dominate `bi` and have a successor from which `bi` is unreachable
    (without going back through the switch): real guards of the site."""
    out = []
    for sb, b in enumerate(f.blocks):
        t = b["term"]
        if t["k"] != "switch" or sb == bi or not f.dominates(sb, bi):
            continue
        succ = [x[1] for x in t["ts"]] + [t["else"]]
        if any(s is not None and bi not in f.reachable_blocks(s, avoid=(sb,)) for s in succ):
            out.append(sb)
    return out


def guarded_by_related_test(f, bi):
    """(True, description) if some real guard's condition shares a provenance atom with the
    operands of the panic-capable terminator of block `bi`."""
    sa = site_atoms(f, bi)
    if not sa:
        return False, "no operand provenance"
    if "clamped" in sa:
        return True, "operand clamped (min / saturating / checked / wrapping arithmetic)"
    t = f.blocks[bi]["term"]
    is_index = (t["k"] == "assert" and t["kind"] == "bounds") or (t["k"] == "call" and re.search(r"index|slice_index|split_at|copy_within|drain|insert$|remove$", callee_key(t)))
    for sb in guarding_branches(f, bi):
        d = f.blocks[sb]["term"]["d"]
        ga = atoms_of_operand(f, d)
        common = sa & ga
        if not common:
            continue
        if is_index and not _is_upper_bound_test(f, d):
            continue      # a test such as `i > 0` / `x.is_some()` says nothing about the upper bound of an index
        return True, "guarded by the branch in bb%d on %s" % (sb, ",".join(sorted(common))[:80])
    return False, "no dominating " + ("upper-bound " if is_index else "") + "test of " + ",".join(sorted(sa))[:80]


def _is_upper_bound_test(f, d):
    """the switch discriminant is an ordering comparison against a length-like or positive constant
    value, or the discriminant of an Option/Result produced by a checked accessor (get, checked_*, split_at_checked, position..)"""
    txt = f.deep(d)
    if re.search(r"::(get|get_mut|checked_\w+|split_at_checked|split_first|split_last|first|last|position|find|strip_prefix|strip_suffix)\(", txt):
        return True
    m = re.search(r" (Lt|Le|Gt|Ge) ", txt)
    if not m:
        return False
    if re.search(r"len\(|PtrMetadata|capacity\(|Len\(", txt):
        return True
    nums = [int(x) for x in re.findall(r"const (\d+)_", txt)]
    return any(n >= 1 for n in nums)


# ---------------------------------------------------------------------------------------------
class CallGraph:
    """over-approximate crate-local call graph: direct / resolved calls, closure creation, function
    items mentioned as values (fn pointers), and calls through trait bounds or dyn (edges to every
    local implementation of that trait method, including trait default bodies)."""

    def __init__(self, mir):
        self.mir = mir
        self.fns = {f.path: f for f in mir.fns if not mir.is_test_fn(f)}
        tm = {}
        for f in self.fns.values():
            tr = f.rec.get("trait")
            if tr:
                tm.setdefault((strip_generics(tr), last_seg(f.path)), []).append(f.path)
        self.trait_methods = tm
        self.closures = [p for p in self.fns if "{closure#" in p]
        self.succ = {p: set() for p in self.fns}
        for p, f in self.fns.items():
            out = self.succ[p]
            for b in f.blocks:
                for st in b["stmts"]:
                    if st["k"] != "assign":
                        continue
                    rv = st["rv"]
                    if rv["k"] == "agg" and rv.get("what") == "closure" and rv["name"] in self.fns:
                        out.add(rv["name"])
                    for o in _rv_operands(rv):
                        self._mention(o, out)
                t = b["term"]
                if t["k"] != "call":
                    continue
                for a in t["args"]:
                    self._mention(a, out)
                c = t["callee"]
                if c in self.fns:
                    out.add(c)
                if t.get("how") in ("unresolved", "resolved") or c not in self.fns:
                    raw = t.get("raw") or c
                    if re.search(r"ops::(function::)?Fn(Mut|Once)?::call", raw):
                        out.update(self.closures)       # a call through dyn Fn / a generic Fn bound: any closure
                        continue
                    key = (strip_generics(raw.rsplit("::", 1)[0]), last_seg(raw))
                    for q in tm.get(key, ()):
                        if t.get("how") == "unresolved" or c not in self.fns:
                            out.add(q)

    def _mention(self, o, out):
        if o.get("k") == "const" and "fn" in o:
            fnp = o["fn"]
            if fnp in self.fns:
                out.add(fnp)
            else:
                key = (strip_generics(fnp.rsplit("::", 1)[0]), last_seg(fnp))
                m = re.match(r"<.* as (.*)>$", key[0])
                if m:
                    key = (strip_generics(m.group(1)), key[1])
                for q in self.trait_methods.get(key, ()):
                    out.add(q)

    def reachable(self, roots):
        seen = set()
        todo = [r for r in roots]
        while todo:
            p = todo.pop()
            if p in seen or p not in self.succ:
                continue
            seen.add(p)
            todo += list(self.succ[p])
        return seen


def _rv_operands(rv):
    for k in ("o", "a", "b"):
        if k in rv and isinstance(rv[k], dict):
            yield rv[k]
    for o in rv.get("ops", ()):
        yield o


def _places_in(x):
    """every place read in a statement / terminator JSON (operands, rvalue places, call args)"""
    if isinstance(x, dict):
        if "local" in x and "proj" in x:
            yield x
            for e in x["proj"]:
                if isinstance(e, dict) and "index" in e:
                    yield {"local": e["index"], "proj": []}
            return
        for k, v in x.items():
            if k in ("dest",):
                continue
            yield from _places_in(v)
    elif isinstance(x, list):
        for v in x:
            yield from _places_in(v)


def uninspected_results(f, ty_rx=r"^std::result::Result<"):
    """call sites whose Result-typed destination is never read afterwards (`let _ = fallible();`
    or a bare `fallible();`): [(block, callee, type)].  A drop terminator is not a read."""
    reads = set()
    for b in f.blocks:
        for st in b["stmts"]:
            if st["k"] == "assign":
                for p in _places_in(st["rv"]):
                    reads.add(p["local"])
                for e in st["p"]["proj"]:
                    if isinstance(e, dict) and "index" in e:
                        reads.add(e["index"])
        t = b["term"]
        if t["k"] == "drop":
            continue
        for k in ("d", "args", "cond", "func"):
            if k in t:
                for p in _places_in(t[k]):
                    reads.add(p["local"])
    out = []
    for bi, b in enumerate(f.blocks):
        t = b["term"]
        if t["k"] != "call" or b["cleanup"] or t["dest"]["proj"]:
            continue
        loc = t["dest"]["local"]
        ty = f.rec["locals"][loc]
        if loc != 0 and re.search(ty_rx, ty) and loc not in reads:
            out.append((bi, callee_key(t), ty))
    return out


def examined_results(f):
    """switches on the discriminant of a whole `Result` local: [(switch block, local, type, err_target)]"""
    out = []
    for sb, b in enumerate(f.blocks):
        if b.get("cleanup"):
            continue
        t = b["term"]
        if t["k"] != "switch" or t["d"]["k"] not in ("copy", "move"):
            continue
        P = None
        for kind, dbi, st in f.defs_of(t["d"]["p"]["local"]):
            if kind == "assign" and st["rv"]["k"] == "discr":
                P = st["rv"]["p"]
        if P is None or P["proj"]:
            continue
        ty = f.rec["locals"][P["local"]]
        if not ty.startswith("std::result::Result<"):
            continue
        tgt = [x[1] for x in t["ts"] if x[0] == 1]
        out.append((sb, P["local"], ty, tgt[0] if tgt else t["else"]))
    return out


def swallowed_errors(f):
    """examined Results whose Err edge can reach a `return` without passing a block that builds the function's
    Err value: [(switch block, local, type, err-return reachable from the Err edge?)]"""
    errs = set(f.err_return_blocks())
    out = []
    for sb, loc, ty, tgt in examined_results(f):
        if tgt in errs:
            continue
        reach = f.reachable_without_edges(tgt, removed_blocks=list(errs), removed_edges=[])
        if any(f.blocks[bi]["term"]["k"] == "return" for bi in reach):
            full = f.reachable_blocks(tgt)
            out.append((sb, loc, ty, any(e in full for e in errs)))
    return out
