"""Helpers over the JSON facts produced by engines/mirfacts (type-checked program + MIR)."""
import re
from .facts import mir_facts, EngineError


def strip_generics(s):
    """remove balanced <...> groups (and a preceding '::')"""
    out = []
    depth = 0
    i = 0
    while i < len(s):
        c = s[i]
        if c == "<":
            # keep leading '<' of "<T as Trait>::x" (depth 0 at start or after space/paren)
            depth += 1
            if depth == 1 and out and out[-1] == ":" and len(out) >= 2 and out[-2] == ":":
                out.pop(); out.pop()
            i += 1
            continue
        if c == ">" and depth > 0 and not (i > 0 and s[i - 1] == "-"):
            depth -= 1
            i += 1
            continue
        if depth == 0:
            out.append(c)
        i += 1
    return "".join(out)


def last_seg(p):
    return p.split("::")[-1]


def short_ty(t):
    """'transform_stream::dispatcher::Dispatcher<C, O>' -> 'Dispatcher'"""
    t = t.strip()
    t = re.sub(r"^&('[a-z_]+ )?(mut )?", "", t)
    t = strip_generics(t)
    return t.split("::")[-1]


class Fn:
    def __init__(self, rec):
        self.rec = rec
        self.path = rec["path"]
        self.blocks = rec["blocks"]
        self.trait = last_seg(rec["trait"]) if rec["trait"] else None
        self.owner = short_ty(rec["self_ty"]) if rec["self_ty"] else None
        p = self.path
        m = re.search(r"(::\{closure#\d+\})+$", p)
        self.closure_suffix = m.group(0) if m else ""
        base = p[: len(p) - len(self.closure_suffix)]
        if rec["impl"] == "<trait default>":
            self.owner = last_seg(rec["trait"])
            self.trait = None
        self.name = last_seg(strip_generics(base)) if not base.endswith(">") else last_seg(base)
        # canonical short key
        if self.owner:
            self.key = f"{self.owner}::{self.name}" + (f"[{self.trait}]" if self.trait else "")
        else:
            self.key = strip_generics(base)
        self.key += self.closure_suffix
        self._succ = None
        self._dom = None
        self._pdom = None

    # ---- CFG ---------------------------------------------------------------
    def succ(self, bi, include_unwind=False):
        t = self.blocks[bi]["term"]
        k = t["k"]
        if k == "goto":
            return [t["t"]]
        if k == "switch":
            return [x[1] for x in t["ts"]] + [t["else"]]
        if k in ("call",):
            return [t["t"]] if t["t"] >= 0 else []
        if k in ("drop", "assert"):
            return [t["t"]]
        return []

    def succs(self):
        if self._succ is None:
            self._succ = [self.succ(i) for i in range(len(self.blocks))]
        return self._succ

    def preds(self):
        pr = [[] for _ in self.blocks]
        for i, ss in enumerate(self.succs()):
            for s in ss:
                pr[s].append(i)
        return pr

    def reachable_blocks(self, start=0, avoid=()):
        seen = set()
        todo = [start]
        av = set(avoid)
        while todo:
            b = todo.pop()
            if b in seen or b in av:
                continue
            seen.add(b)
            todo += self.succs()[b]
        return seen

    def dominators(self):
        """dom[b] = set of blocks dominating b (iterative; functions are small)."""
        if self._dom is None:
            n = len(self.blocks)
            reach = self.reachable_blocks()
            allb = set(reach)
            dom = {b: set(allb) for b in reach}
            dom[0] = {0}
            pr = self.preds()
            changed = True
            order = sorted(reach)
            while changed:
                changed = False
                for b in order:
                    if b == 0:
                        continue
                    ps = [p for p in pr[b] if p in reach]
                    if ps:
                        new = set.intersection(*[dom[p] for p in ps]) | {b}
                    else:
                        new = {b}
                    if new != dom[b]:
                        dom[b] = new
                        changed = True
            self._dom = dom
        return self._dom

    def dominates(self, a, b):
        d = self.dominators()
        return b in d and a in d[b]

    def calls(self, pat=None):
        """yield (block index, term) of call terminators whose callee (resolved or raw) matches regex pat"""
        rx = re.compile(pat) if pat else None
        for i, b in enumerate(self.blocks):
            t = b["term"]
            if t["k"] == "call":
                if rx is None or rx.search(callee_key(t)) or rx.search(t["callee"]) or rx.search(t["raw"]):
                    yield i, t

    def reachable_without_edges(self, start, removed_blocks=(), removed_edges=()):
        seen = set()
        todo = [start]
        rb = set(removed_blocks)
        re_ = set(removed_edges)
        while todo:
            b = todo.pop()
            if b in seen or b in rb:
                continue
            seen.add(b)
            for s2 in self.succs()[b]:
                if (b, s2) not in re_:
                    todo.append(s2)
        return seen

    def return_blocks(self):
        return [i for i, b in enumerate(self.blocks) if b["term"]["k"] == "return" and not b.get("cleanup")]

    def can_reach_without(self, src, dst_set, avoid_set):
        """is some block of dst_set reachable from src without entering avoid_set blocks"""
        seen = set()
        todo = [src]
        while todo:
            b = todo.pop()
            if b in seen:
                continue
            seen.add(b)
            if b in dst_set:
                return True
            if b in avoid_set and b != src:
                continue
            todo += self.succs()[b]
        return False

    def loc(self):
        return self.rec["span"]

    # ---- provenance --------------------------------------------------------
    def defs_of(self, local):
        """all definitions of a whole local: list of ('assign', bi, stmt) / ('call', bi, term)"""
        out = []
        for bi, b in enumerate(self.blocks):
            for st in b["stmts"]:
                if st["k"] == "assign" and st["p"]["local"] == local and not st["p"]["proj"]:
                    out.append(("assign", bi, st))
            t = b["term"]
            if t["k"] == "call" and t["dest"]["local"] == local and not t["dest"]["proj"]:
                out.append(("call", bi, t))
        return out

    def name_of(self, local):
        return self.rec["names"].get(str(local))

    def describe_place(self, p, depth=0):
        base = self.describe_local(p["local"], depth)
        for e in p["proj"]:
            if e == "*":
                continue
            if isinstance(e, dict) and "f" in e:
                base += "." + e["f"]
            elif isinstance(e, dict) and "variant" in e:
                base += " as " + e["variant"]
            elif isinstance(e, dict) and "index" in e:
                base += "[" + self.describe_local(e["index"], depth + 1) + "]"
            else:
                base += "[..]"
        return base

    def describe_operand(self, o, depth=0):
        if o["k"] == "const":
            if "fn" in o:
                return "fn " + o["fn"]
            if "static" in o:
                return "static " + o["static"]
            return "const " + o["v"] + ": " + o["ty"]
        if o["k"] in ("copy", "move"):
            return self.describe_place(o["p"], depth)
        return "?"

    def deep(self, o):
        """describe an operand looking through named locals (only arguments keep their names)"""
        self._deep = True
        try:
            return self.describe_operand(o)
        finally:
            self._deep = False

    def describe_local(self, local, depth=0):
        """canonical description of what a temp holds: follows single-definition chains of
        refs / copies / calls up to named variables and arguments."""
        nm = self.name_of(local)
        if nm is not None and not (getattr(self, "_deep", False) and local > self.rec["arg_count"] and len(self.defs_of(local)) == 1):
            return nm
        if depth > 12:
            return "_%d" % local
        ds = self.defs_of(local)
        if len(ds) != 1:
            if 1 <= local <= self.rec["arg_count"]:
                return "arg%d" % local
            return "_%d{%d defs}" % (local, len(ds))
        kind, bi, x = ds[0]
        if kind == "call":
            return "%s(%s)" % (callee_key(x), ", ".join(self.describe_operand(a, depth + 1) for a in x["args"]))
        rv = x["rv"]
        k = rv["k"]
        if k == "use":
            return self.describe_operand(rv["o"], depth + 1)
        if k in ("ref", "rawptr"):
            return self.describe_place(rv["p"], depth + 1)
        if k == "cast":
            return self.describe_operand(rv["o"], depth + 1)
        if k == "agg":
            return "%s{%s}" % (rv["name"] or rv["what"], ", ".join(self.describe_operand(a, depth + 1) for a in rv["ops"]))
        if k == "bin":
            return "(%s %s %s)" % (self.describe_operand(rv["a"], depth + 1), rv["op"], self.describe_operand(rv["b"], depth + 1))
        if k == "un":
            return "%s(%s)" % (rv["op"], self.describe_operand(rv["o"], depth + 1))
        if k == "discr":
            return "discr(" + self.describe_place(rv["p"], depth + 1) + ")"
        return "_%d" % local

    def root_place(self, op, depth=0):
        """follow single-definition copies / (re)borrows to the underlying place:
        returns (base_local, [projection elems]) or None. Ignores debug names."""
        if op["k"] not in ("copy", "move"):
            return None
        return self._root_place_p(op["p"], depth)

    def _root_place_p(self, p, depth=0):
        loc = p["local"]
        proj = list(p["proj"])
        if depth > 12 or 1 <= loc <= self.rec["arg_count"]:
            return (loc, proj)
        ds = self.defs_of(loc)
        if len(ds) != 1 or ds[0][0] != "assign":
            return (loc, proj)
        rv = ds[0][2]["rv"]
        inner = None
        if rv["k"] in ("use", "cast") and rv["o"]["k"] in ("copy", "move"):
            inner = rv["o"]["p"]
        elif rv["k"] in ("ref", "rawptr"):
            inner = rv["p"]
        if inner is None:
            return (loc, proj)
        r = self._root_place_p(inner, depth + 1)
        if r is None:
            return (loc, proj)
        return (r[0], r[1] + proj)

    def field_path(self, op):
        """'arg1|Variant.field|field' style canonical path of the place an operand denotes"""
        r = self.root_place(op)
        if r is None:
            return None
        loc, proj = r
        parts = []
        for e in proj:
            if e == "*":
                continue
            if isinstance(e, dict) and "f" in e:
                parts.append(short_ty(e["of"]) + "." + e["f"])
            elif isinstance(e, dict) and "variant" in e:
                continue
            else:
                parts.append("[]")
        base = self.name_of(loc) if 1 <= loc <= self.rec["arg_count"] else "_%d" % loc
        return (base or "arg%d" % loc) + "".join("|" + x for x in parts)

    def err_return_blocks(self):
        """blocks that build the function's Err(..) return value"""
        out = []
        for bi, b in enumerate(self.blocks):
            if b.get("cleanup"):
                continue
            for st in b["stmts"]:
                if st["k"] == "assign" and st["p"]["local"] == 0 and not st["p"]["proj"] and st["rv"]["k"] == "agg" and st["rv"]["name"].endswith("Result::Err"):
                    out.append(bi)
            t = b["term"]
            if t["k"] == "call" and t["dest"]["local"] == 0 and not t["dest"]["proj"] and "from_residual" in t["callee"]:
                # `?` propagating an error: the residual is written straight into the return place
                out.append(bi)
        return out

    def switch_edges(self, bi):
        """for a call block whose bool result is switched on next: (false_succ, true_succ)"""
        t = self.blocks[bi]["term"]
        nb = t["t"]
        sw = self.blocks[nb]["term"]
        if sw["k"] != "switch":
            return None
        d = sw["d"]
        if d["k"] not in ("copy", "move") or d["p"]["local"] != t["dest"]["local"]:
            return None
        f = [x[1] for x in sw["ts"] if x[0] == 0]
        if len(f) != 1:
            return None
        return f[0], sw["else"]


def callee_key(t):
    """canonical short name of a call's callee: 'Owner::method' / 'Trait::method' / 'path::fn'"""
    c = t["callee"] or t["raw"]
    c2 = c
    m = re.search(r"<impl (.+) for ([^<>]+(<.*>)?)>::([A-Za-z0-9_]+)((::\{closure#\d+\})*)$", c2)
    if m:
        return f"{short_ty(m.group(2))}::{m.group(4)}[{last_seg(strip_generics(m.group(1)))}]" + m.group(5)
    m = re.search(r"<impl ([^<>]+(<.*>)?)>::([A-Za-z0-9_]+)((::\{closure#\d+\})*)$", c2)
    if m:
        return f"{short_ty(m.group(1))}::{m.group(3)}" + m.group(4)
    m = re.match(r"^<(.+) as (.+)>::([A-Za-z0-9_]+)$", c2)
    if m:
        return f"{short_ty(m.group(1))}::{m.group(3)}[{last_seg(strip_generics(m.group(2)))}]"
    s = strip_generics(c2)
    parts = s.split("::")
    if len(parts) >= 2:
        return parts[-2] + "::" + parts[-1]
    return s


class Mir:
    def __init__(self, crate="lol_html", features=(), release=False):
        self.raw = mir_facts(crate, features, release)
        self.fns = [Fn(r) for r in self.raw["fns"]]
        bypath = {f.path: f for f in self.fns}
        for f in self.fns:
            if f.closure_suffix:
                base = f.path[: len(f.path) - len(f.closure_suffix)]
                par = bypath.get(base)
                if par is not None:
                    f.key = par.key + f.closure_suffix
                    f.owner = par.owner
        self.by_key = {}
        for f in self.fns:
            self.by_key.setdefault(f.key, []).append(f)
        self.adts = {a["path"]: a for a in self.raw["adts"]}
        self.impls = self.raw["impls"]
        self.statics = self.raw["statics"]

    def is_test_fn(self, f):
        return "::tests::" in f.path or "::test_utils" in f.path or f.path.startswith("tests::")

    def fn(self, key):
        r = [f for f in self.by_key.get(key, [])]
        if len(r) != 1:
            raise EngineError(f"anchor fn {key}: expected exactly 1 MIR body, found {len(r)}")
        return r[0]

    def fns_matching(self, rx):
        r = re.compile(rx)
        return [f for f in self.fns if r.search(f.key)]

    def callers_of(self, rx):
        """[(fn, block, term)] over all non-test functions calling something matching rx"""
        out = []
        r = re.compile(rx)
        for f in self.fns:
            for i, t in f.calls():
                if r.search(callee_key(t)) or r.search(t["callee"]) or r.search(t["raw"]):
                    out.append((f, i, t))
        return out

    def adt(self, short):
        r = [a for p, a in self.adts.items() if p.split("::")[-1] == short]
        if len(r) != 1:
            raise EngineError(f"anchor ADT {short}: expected 1, found {len(r)}")
        return r[0]

    def field_writes(self, owner_short, field):
        """[(fn, block, stmt)] assignments whose place ends in <owner>.<field> (any depth)"""
        out = []
        for f in self.fns:
            for bi, b in enumerate(f.blocks):
                for st in b["stmts"]:
                    if st["k"] != "assign":
                        continue
                    pj = st["p"]["proj"]
                    for e in pj:
                        pass
                    # last field projection
                    lastf = None
                    for e in pj:
                        if isinstance(e, dict) and "f" in e:
                            lastf = e
                    if lastf and lastf["f"] == field and short_ty(lastf["of"]) == owner_short and pj and pj[-1] is lastf:
                        out.append((f, bi, st))
        return out


_mir = {}


def load(crate="lol_html", features=(), release=False):
    k = (crate, tuple(features), release)
    if k not in _mir:
        _mir[k] = Mir(crate, features, release)
    return _mir[k]
