"""What each state-machine action does in its two implementors (Lexer, TagScanner),
read from the expanded syntax tree (never assumed from the action names)."""
from .astlib import Index, walk, is_self_field
from .facts import EngineError, expanded_ast

_idx = {}


def index(crate="lol_html", features=()):
    key = (crate, tuple(features))
    if key not in _idx:
        _idx[key] = Index(expanded_ast(crate, features))
    return _idx[key]


def impl_methods(idx, owner, trait):
    out = {}
    for f in idx.fns:
        if f.owner == owner and f.trait == trait:
            out[f.name] = f
    return out


def field_effects(fnrec):
    """-> list of (field, effect) with effect in {'some','none','take','assign','augassign'}"""
    eff = []
    for n in walk(fnrec.node.get("body")):
        k = n.get("k")
        if k == "Assign" and is_self_field(n["left"]):
            r = n["right"]
            e = "assign"
            if r.get("k") == "Call" and r["func"].get("k") == "Path" and r["func"]["path"] == "Some":
                e = "some"
            elif r.get("k") == "Path" and r["path"] == "None":
                e = "none"
            eff.append((n["left"]["member"], e, n))
        elif k == "Binary" and n["op"] in ("+=", "-=") and is_self_field(n["left"]):
            eff.append((n["left"]["member"], "augassign", n))
        elif k == "MethodCall" and n["method"] == "take" and is_self_field(n["recv"]):
            eff.append((n["recv"]["member"], "take", n))
    return eff


def tag_start_effects(idx):
    """gen/kill sets of actions over TagScanner.tag_start, from the TagScanner impl."""
    ms = impl_methods(idx, "TagScanner", "StateMachineActions")
    if len(ms) < 30:
        raise EngineError("anchor: impl StateMachineActions for TagScanner has %d methods (<30)" % len(ms))
    gen, kill = set(), set()
    for name, f in ms.items():
        for fld, e, _ in field_effects(f):
            if fld == "tag_start":
                if e == "some":
                    gen.add(name)
                elif e in ("none", "take"):
                    kill.add(name)
                else:
                    raise EngineError("TagScanner::%s writes tag_start in an unknown way" % name)
    return gen, kill, ms
