"""A tiny abstract interpreter for lol-html's tag-predicate code (functions of a `LocalNameHash`).

It evaluates a function body from the expanded syntax tree for ONE symbolic tag name drawn from the
finite domain {every `Tag::X` variant, OTHER (a hashable name that is none of them), EMPTY (an
unhashable name)} and a concrete abstract receiver state; enumerating the domain yields complete
decision tables.  Unknown constructs raise EngineError (no silent skip).
"""
from .facts import EngineError
from .astlib import walk

OTHER = "<other>"
EMPTY = "<unhashable>"


class Ret(Exception):
    def __init__(self, v):
        self.v = v


class Sym:
    """opaque value (call result etc.)"""
    def __init__(self, kind, *args):
        self.kind = kind
        self.args = args

    def __repr__(self):
        return "%s(%s)" % (self.kind, ", ".join(map(repr, self.args)))

    def __eq__(self, o):
        return isinstance(o, Sym) and (self.kind, self.args) == (o.kind, o.args)

    def __hash__(self):
        return hash((self.kind, self.args))


class Interp:
    def __init__(self, idx, tag_param="tag_name", helpers=None):
        self.idx = idx
        self.tag_param = tag_param
        self.effects = []
        self.helpers = helpers or {}
        self.depth = 0

    # -------------------------------------------------------------- helpers
    def fn_by_name(self, name):
        r = [f for f in self.idx.fns if f.name == name and f.owner is None]
        if len(r) == 1:
            return r[0]
        return None

    def call_fn(self, fnrec, args, self_env=None):
        if self.depth > 8:
            raise EngineError("tagsem: recursion too deep in " + fnrec.name)
        env = {}
        params = [i for i in fnrec.node["sig"]["inputs"]]
        ai = 0
        for p in params:
            if p.get("self"):
                continue
            nm = p["pat"].get("name")
            env[nm] = args[ai] if ai < len(args) else None
            ai += 1
        if self_env:
            env.update(self_env)
        self.depth += 1
        try:
            v = self.block(fnrec.node["body"], env)
        except Ret as r:
            v = r.v
        finally:
            self.depth -= 1
        return v

    # -------------------------------------------------------------- statements
    def block(self, stmts, env):
        v = None
        env = dict(env)
        for i, st in enumerate(stmts):
            k = st.get("k")
            if k == "ItemStmt":
                continue
            if k == "Local":
                pat = st["pat"]
                init = st.get("init")
                val = self.expr(init, env) if init is not None else None
                if "else" in st:
                    # let-else: `let Some(x) = e else { ... }`
                    b = self.bind(pat, val, env)
                    if not b:
                        self.expr(st["else"], env)
                    v = None
                    continue
                if not self.bind(pat, val, env):
                    raise EngineError("tagsem: irrefutable let pattern failed: " + str(pat.get("s")))
                v = None
                continue
            if k == "ExprStmt":
                e = st["e"]
                if e.get("k") == "Other" and not e.get("src", "").strip():
                    continue
                val = self.expr(e, env)
                v = None if st.get("semi") else val
                continue
            raise EngineError("tagsem: unknown statement " + str(k))
        return v

    def bind(self, pat, val, env):
        k = pat.get("k")
        if k == "PWild":
            return True
        if k == "PIdent":
            nm = pat["name"]
            if nm == "None" and "sub" not in pat:
                return val is None
            if nm[0].isupper() and "sub" not in pat and isinstance(val, str) and val.split("::")[-1] == nm:
                return True
            if nm[0].isupper() and "sub" not in pat and isinstance(val, (str, tuple)):
                # unit variant imported by `use Enum::*`
                vv = val if isinstance(val, str) else val[0]
                return vv.split("::")[-1] == nm
            env[nm] = val
            return True
        if k == "PPath":
            p = pat["path"]
            vv = val[0] if isinstance(val, tuple) else val
            return isinstance(vv, str) and vv.split("::")[-1] == p.split("::")[-1]
        if k == "PTupleStruct":
            p = pat["path"].split("::")[-1]
            if p == "Some":
                if val is None:
                    return False
                return self.bind(pat["elems"][0], val, env)
            if isinstance(val, tuple) and isinstance(val[0], str) and val[0].split("::")[-1] == p:
                for sub, x in zip(pat["elems"], val[1:]):
                    if not self.bind(sub, x, env):
                        return False
                return True
            return False
        if k == "PTuple":
            if isinstance(val, tuple) and val and val[0] == "tuple":
                val = val[1:]
            if not isinstance(val, (tuple, list)) or len(val) != len(pat["elems"]):
                return False
            return all(self.bind(sub, x, env) for sub, x in zip(pat["elems"], val))
        if k == "PLit":
            return val == self.lit(pat["lit"])
        if k == "PType":
            return self.bind(pat["pat"], val, env)
        if k == "PRef":
            return self.bind(pat["pat"], val, env)
        raise EngineError("tagsem: unknown pattern " + str(pat.get("s") or k))

    def lit(self, l):
        if l["t"] in ("int",):
            return int(l["v"])
        if l["t"] == "byte":
            return int(l["v"])
        if l["t"] == "bool":
            return bool(l["v"])
        if l["t"] == "str":
            return l["v"]
        if l["t"] == "bytestr":
            return bytes(l["v"])
        return Sym("lit", str(l["v"]))

    # -------------------------------------------------------------- expressions
    def expr(self, e, env):
        k = e.get("k")
        if k == "Lit":
            return self.lit(e["lit"])
        if k == "Path":
            p = e["path"]
            if p in env:
                return env[p]
            if "::" in p or p[0].isupper():
                return p
            if p == "self":
                return Sym("self")
            raise EngineError("tagsem: unbound variable " + p)
        if k == "Field":
            b = e["base"]
            if b.get("k") == "Path" and b["path"] == "self":
                key = "self." + e["member"]
                if key in env:
                    return env[key]
                raise EngineError("tagsem: receiver field not modelled: " + key)
            if b.get("k") == "Path" and (b["path"] + "." + e["member"]) in env:
                return env[b["path"] + "." + e["member"]]
            return Sym("field", repr(self.expr(b, env)), e["member"])
        if k == "Unary":
            v = self.expr(e["e"], env)
            if e["op"] == "!":
                return not self.truth(v)
            if e["op"] == "*":
                return v
            if e["op"] == "-":
                return -v
        if k == "Ref":
            return self.expr(e["e"], env)
        if k == "Binary":
            op = e["op"]
            if op == "||":
                return self.truth(self.expr(e["left"], env)) or self.truth(self.expr(e["right"], env))
            if op == "&&":
                return self.truth(self.expr(e["left"], env)) and self.truth(self.expr(e["right"], env))
            a = self.expr(e["left"], env)
            b = self.expr(e["right"], env)
            if op in ("==", "!="):
                r = self.equal(a, b)
                return r if op == "==" else not r
            if op == "+":
                return a + b
            if op == "-":
                return a - b
            if op == "<":
                return a < b
            if op == ">":
                return a > b
            if op == "<=":
                return a <= b
            if op == ">=":
                return a >= b
            raise EngineError("tagsem: operator " + op)
        if k == "If":
            c = e["cond"]
            env2 = dict(env)
            if c.get("k") == "Let":
                val = self.expr(c["e"], env)
                taken = self.bind(c["pat"], val, env2)
            else:
                taken = self.truth(self.expr(c, env))
            if taken:
                return self.block(e["then"], env2)
            if "else" in e:
                el = e["else"]
                if el.get("k") == "Block":
                    return self.block(el["body"], env)
                return self.expr(el, env)
            return None
        if k == "Block":
            return self.block(e["body"], env)
        if k == "Match":
            sc = self.expr(e["scrutinee"], env)
            for arm in e["arms"]:
                env2 = dict(env)
                if self.bind(arm["pat"], sc, env2):
                    if "guard" in arm and not self.truth(self.expr(arm["guard"], env2)):
                        continue
                    return self.expr(arm["body"], env2)
            raise EngineError("tagsem: no match arm taken for " + repr(sc))
        if k == "Return":
            raise Ret(self.expr(e["value"], env) if "value" in e else None)
        if k == "Try":
            v = self.expr(e["e"], env)
            if isinstance(v, tuple) and v[0] == "Err":
                raise Ret(v)
            if isinstance(v, tuple) and v[0] == "Ok":
                return v[1] if len(v) > 1 else None
            return v
        if k == "Assign":
            l = e["left"]
            val = self.expr(e["right"], env)
            if l.get("k") == "Field" and l["base"].get("k") == "Path" and l["base"]["path"] == "self":
                key = "self." + l["member"]
                env_key = key
                self.effects.append(("set", key, val))
                # visible to later reads in the same evaluation
                self._assign_env(env, env_key, val)
                return None
            raise EngineError("tagsem: assignment to " + str(l.get("s")))
        if k == "Tuple":
            if not e["elems"]:
                return None
            return tuple(["tuple"] + [self.expr(x, env) for x in e["elems"]])
        if k == "Call":
            f = e["func"]
            args = [self.expr(a, env) for a in e["args"]]
            if f.get("k") == "Path":
                p = f["path"]
                last = p.split("::")[-1]
                if p in ("Ok", "Err", "Some"):
                    if p == "Some":
                        return args[0]
                    return tuple([p] + args)
                if p in self.helpers:
                    return self.helpers[p](self, args, env)
                if last[0].isupper() and ("::" in p or True) and p.split("::")[0] != "Self":
                    # enum tuple variant constructor
                    return tuple([p] + args)
                fr = self.fn_by_name(last)
                if fr is not None:
                    return self.call_fn(fr, args)
                self.effects.append(("call", p, tuple(map(repr, args))))
                return Sym("call", p)
            raise EngineError("tagsem: call of " + str(f.get("s")))
        if k == "MethodCall":
            m = e["method"]
            recv = e["recv"]
            if recv.get("k") == "Path" and recv["path"] == self.tag_param and m == "is_empty":
                return env[self.tag_param] == EMPTY
            if m in ("into", "clone", "as_ref", "copied"):
                return self.expr(recv, env)
            rv = self.expr(recv, env)
            args = [self.expr(a, env) for a in e["args"]]
            key = ("method", m)
            if key in self.helpers:
                return self.helpers[key](self, rv, args, env)
            if isinstance(rv, Sym) and rv.kind == "self":
                self.effects.append(("self-call", m, tuple(map(repr, args))))
                return Sym("self-call", m, tuple(map(repr, args)))
            self.effects.append(("method", m, repr(rv)))
            return Sym("method", m, repr(rv))
        if k == "Index" and "index" in self.helpers:
            return self.helpers["index"](self, e, env)
        if k == "Struct":
            return tuple([e["path"]] + [(f["member"], self.expr(f["e"], env)) for f in e["fields"]])
        if k == "Closure":
            c = Sym("closure", id(e))
            c.node = e
            c.env = env          # captured by reference: later evaluation sees the defining environment
            return c
        if k == "Macro":
            return Sym("macro", e.get("path"))
        if k == "Cast":
            return self.expr(e["e"], env)
        raise EngineError("tagsem: unknown expression " + str(e.get("s") or k))

    def apply_closure(self, c, args):
        """evaluate a closure value created by this interpreter on concrete arguments"""
        if not (isinstance(c, Sym) and c.kind == "closure" and hasattr(c, "node")):
            raise EngineError("tagsem: not a closure: " + repr(c))
        env = dict(c.env)
        for pat, a in zip(c.node["inputs"], args):
            if not self.bind(pat, a, env):
                raise EngineError("tagsem: closure argument does not match its pattern")
        try:
            return self.expr(c.node["body"], env)
        except Ret as r:
            return r.v

    def _assign_env(self, env, key, val):
        env[key] = val

    def truth(self, v):
        if isinstance(v, bool):
            return v
        raise EngineError("tagsem: non-boolean condition " + repr(v))

    def equal(self, a, b):
        # tag comparisons: `tag_name == Tag::X`
        def tagv(x):
            if isinstance(x, str) and x.startswith("Tag::"):
                return x[5:]
            return None
        ta, tb = tagv(a), tagv(b)
        if ta is not None and not isinstance(b, str):
            pass
        if ta is not None or tb is not None:
            other = b if ta is not None else a
            t = ta if ta is not None else tb
            if isinstance(other, str) and not other.startswith("Tag::"):
                return other == t
            if isinstance(other, str):
                return other[5:] == t
        if isinstance(a, str) and isinstance(b, str):
            return a.split("::")[-1] == b.split("::")[-1]
        return a == b


def tag_variants(idx):
    e = idx.enum("Tag")
    return [v["name"] for v in e["variants"]]


def or_chain_tags(expr, tag_param=None):
    """set of X for an expression `h == Tag::A || h == Tag::B ...`; None if another shape"""
    out = set()

    def rec(e):
        if e.get("k") == "Binary" and e["op"] == "||":
            return rec(e["left"]) and rec(e["right"])
        if e.get("k") == "Binary" and e["op"] == "==" and e["right"].get("k") == "Path" and e["right"]["path"].startswith("Tag::"):
            out.add(e["right"]["path"][5:])
            return True
        return False

    if rec(expr):
        return out
    return None
