"""R03.1: product exploration of the tokenizer automaton extracted from lol-html's expanded source
against the WHATWG reference model (spec/whatwg_tokenizer.py).

Both machines read the same input in lockstep.  Positions are unbounded, so every position
register is kept as an *age* (distance from the current byte) and the joint register file is
canonicalised by ranks with capped gaps, which preserves equality and small differences exactly
(all the comparisons need).  lol-html's look-ahead arms are handled with a window of byte-set
constraints on not-yet-consumed input, so no byte is ever compared at different positions.

What is compared: at every token emission (tag / comment / doctype / dropped markup) both sides
must emit in the same step, with the same kind, the same raw extent and equal part ranges (tag
name, attribute name/value at each attribute end, comment data, doctype name/ids, flags); new
attributes must start in the same step; the end of input must produce the same final events.
"""
import importlib.util
import os
from collections import deque

from .facts import EngineError, VERIF
from .sm import NONE, ALL, BYTES, fmt_mask, vals_of, mask_of, describe_leaf

EXACT = 10        # ages up to this are exact; the largest retroactive mark / arithmetic reaches 7 bytes back
EOFSYM = 256

TEXT_TYPES = ["Data", "RCData", "RawText", "ScriptData", "PlainText", "CDataSection"]


def load_spec():
    p = os.path.join(VERIF, "spec", "whatwg_tokenizer.py")
    sp = importlib.util.spec_from_file_location("whatwg_tokenizer", p)
    m = importlib.util.module_from_spec(sp)
    sp.loader.exec_module(m)
    return m


# ----------------------------------------------------------------------------------------------
# token state shared vocabulary
REGS = ["mark", "name_s", "name_e", "an_s", "an_e", "av_s", "av_e", "c_s", "c_e", "dn_s", "dn_e", "pub_s", "pub_e", "sys_s", "sys_e", "tps"]


class Tok:
    __slots__ = ("regs", "kind", "tok", "sc", "fq", "attr_open", "nattr", "cq", "have")

    def __init__(self):
        self.regs = {}
        self.kind = None     # start_tag / end_tag
        self.tok = None      # comment / doctype
        self.sc = False
        self.fq = False
        self.attr_open = False
        self.nattr = 0       # attributes completed on the current tag, modulo 4
        self.cq = None
        self.have = frozenset()   # token parts already finalised and compared (name, dn, pub, sys)

    def clone(self):
        t = Tok()
        t.regs = dict(self.regs)
        t.kind, t.tok, t.sc, t.fq, t.attr_open, t.cq, t.nattr, t.have = self.kind, self.tok, self.sc, self.fq, self.attr_open, self.cq, self.nattr, self.have
        return t

    def key(self, prefix):
        return (prefix, self.kind, self.tok, self.sc, self.fq, self.attr_open, self.cq, self.nattr, self.have)


def rng(t, s, e):
    a, b = t.regs.get(s), t.regs.get(e)
    if a is None or b is None:
        return None
    if a == b:
        return "empty"
    return (a, b)


def snapshot(t, kind, end_age):
    """what a token emission exposes; ages are relative to the reference point of the caller"""
    d = {"kind": kind, "start": t.regs.get("mark"), "end": end_age}
    PARTS = {"name": ("name_s", "name_e"), "dn": ("dn_s", "dn_e"), "pub": ("pub_s", "pub_e"), "sys": ("sys_s", "sys_e")}
    def part(nm):
        if nm in t.have:
            return "compared"
        return rng(t, *PARTS[nm])
    if kind == "tag":
        d["tag"] = t.kind
        d["name"] = part("name")
        d["self_closing"] = t.sc if t.kind == "start_tag" else None
        d["attributes_mod4"] = t.nattr if t.kind == "start_tag" else None
    elif kind == "comment":
        d["data"] = rng(t, "c_s", "c_e") or "empty"
    elif kind == "doctype":
        d["name"] = part("dn")
        d["pub"] = part("pub")
        d["sys"] = part("sys")
        d["force_quirks"] = t.fq
        # an empty name is indistinguishable from a missing one in lol-html's outline only if start==end
    return d


def attr_snapshot(t):
    return {"kind": "attr", "name": "compared" if "an" in t.have else rng(t, "an_s", "an_e"),
            "value": "compared" if "av" in t.have else (rng(t, "av_s", "av_e") or "empty")}


# ----------------------------------------------------------------------------------------------
# lol-html side: actions -> effects on Tok (semantics of Lexer's actions; their shapes are
# checked separately by C16 R16.1 / C01 R01.1 against the Lexer impl)
def apply_lol(t, acts, base_off, events, final_ref):
    """apply a leaf's actions.  Positions are relative to p (the first byte of the macro step):
    value p+k is stored as age -k.  base_off = 0.  events get ages relative to p."""
    off = 0
    for a in acts:
        n = a["name"]
        pos = -(off)            # age of pos() relative to p
        if n == "@consume_several":
            off += a["args"][0]
        elif n == "@unconsume":
            pass                 # `reconsume`: the next state re-reads the same byte; actions here already ran
        elif n == "@consume":
            pass
        elif n in ("@enter_seq", "@leave_seq", "mark_tag_start", "unmark_tag_start", "update_tag_name_hash", "enter_cdata", "leave_cdata"):
            pass
        elif n == "set_closing_quote_to_double":
            t.cq = 0x22
        elif n == "set_closing_quote_to_single":
            t.cq = 0x27
        elif n == "create_start_tag":
            t.kind, t.sc, t.attr_open, t.nattr, t.have = "start_tag", False, False, 0, t.have - {"name"}
            for r_ in ("name_s", "name_e", "an_s", "an_e", "av_s", "av_e"):
                t.regs.pop(r_, None)
        elif n == "create_end_tag":
            t.kind, t.sc, t.attr_open, t.nattr, t.have = "end_tag", False, False, 0, t.have - {"name"}
            for r_ in ("name_s", "name_e", "an_s", "an_e", "av_s", "av_e"):
                t.regs.pop(r_, None)
        elif n == "start_token_part":
            t.regs["tps"] = pos
        elif n == "finish_tag_name":
            t.regs["name_s"], t.regs["name_e"] = t.regs.get("tps"), pos
            events.append(("range", {"part": "name", "r": rng(t, "name_s", "name_e")}))
            t.regs.pop("name_s"); t.regs.pop("name_e"); t.have = t.have | {"name"}
        elif n == "mark_as_self_closing":
            if t.kind == "start_tag":
                t.sc = True
        elif n == "start_attr":
            if t.kind == "start_tag":
                t.attr_open = True
                t.regs["tps"] = pos
                t.have = t.have - {"an", "av"}
                for r_ in ("an_s", "an_e", "av_s", "av_e"):
                    t.regs.pop(r_, None)
                events.append(("attr_start", None))
        elif n == "finish_attr_name":
            if t.attr_open:
                t.regs["an_s"], t.regs["an_e"] = t.regs.get("tps"), pos
                events.append(("range", {"part": "an", "r": rng(t, "an_s", "an_e")}))
                t.regs.pop("an_s"); t.regs.pop("an_e"); t.have = t.have | {"an"}
        elif n == "finish_attr_value":
            if t.attr_open:
                t.regs["av_s"], t.regs["av_e"] = t.regs.get("tps"), pos
                events.append(("range", {"part": "av", "r": rng(t, "av_s", "av_e") or "empty"}))
                t.regs.pop("av_s"); t.regs.pop("av_e"); t.have = t.have | {"av"}
        elif n == "finish_attr":
            if t.attr_open:
                events.append(("attr_done", attr_snapshot(t)))
                t.attr_open = False
                t.nattr = (t.nattr + 1) % 4
                for r_ in ("an_s", "an_e", "av_s", "av_e"):
                    t.regs.pop(r_, None)
        elif n == "create_comment":
            t.tok = "comment"
            t.regs.pop("c_s", None); t.regs.pop("c_e", None)
        elif n == "mark_comment_text_end":
            if t.tok == "comment":
                t.regs["c_s"], t.regs["c_e"] = t.regs.get("tps"), pos
        elif n == "shift_comment_text_end_by":
            if t.tok == "comment" and t.regs.get("c_e") is not None:
                t.regs["c_e"] -= a["args"][0]
        elif n == "create_doctype":
            t.tok, t.fq = "doctype", False
            t.have = t.have - {"dn", "pub", "sys"}
            for r_ in ("dn_s", "dn_e", "pub_s", "pub_e", "sys_s", "sys_e"):
                t.regs.pop(r_, None)
        elif n == "set_force_quirks":
            if t.tok == "doctype":
                t.fq = True
        elif n == "finish_doctype_name":
            if t.tok == "doctype":
                t.regs["dn_s"], t.regs["dn_e"] = t.regs.get("tps"), pos
                events.append(("range", {"part": "dn", "r": rng(t, "dn_s", "dn_e")}))
                t.regs.pop("dn_s"); t.regs.pop("dn_e"); t.have = t.have | {"dn"}
        elif n == "finish_doctype_public_id":
            if t.tok == "doctype":
                t.regs["pub_s"], t.regs["pub_e"] = t.regs.get("tps"), pos
                events.append(("range", {"part": "pub", "r": rng(t, "pub_s", "pub_e")}))
                t.regs.pop("pub_s"); t.regs.pop("pub_e"); t.have = t.have | {"pub"}
        elif n == "finish_doctype_system_id":
            if t.tok == "doctype":
                t.regs["sys_s"], t.regs["sys_e"] = t.regs.get("tps"), pos
                events.append(("range", {"part": "sys", "r": rng(t, "sys_s", "sys_e")}))
                t.regs.pop("sys_s"); t.regs.pop("sys_e"); t.have = t.have | {"sys"}
        elif n == "emit_text":
            # text lexeme [lexeme_start, pos): lexeme_start moves to pos
            t.regs["mark"] = pos
        elif n == "emit_text_and_eof":
            t.regs["mark"] = pos
            events.append(("eof", None))
        elif n == "emit_tag":
            events.append(("emit", snapshot(t, "tag", pos - 1)))
            t.regs["mark"] = pos - 1
            t.kind = None
            t.attr_open = False
        elif n == "emit_current_token":
            events.append(("emit", snapshot(t, t.tok or "none", pos - 1)))
            t.regs["mark"] = pos - 1
            t.tok = None
        elif n == "emit_current_token_and_eof":
            events.append(("emit", snapshot(t, t.tok or "none", pos)))
            events.append(("eof", None))
            t.tok = None
        elif n == "emit_raw_without_token":
            events.append(("emit", {"kind": "drop", "start": t.regs.get("mark"), "end": pos - 1}))
            t.regs["mark"] = pos - 1
        elif n == "emit_raw_without_token_and_eof":
            if t.regs.get("mark") is not None and t.regs["mark"] != pos:
                events.append(("emit", {"kind": "drop", "start": t.regs.get("mark"), "end": pos}))
            events.append(("eof", None))
        else:
            raise EngineError("R03.1: no semantics for lexer action " + n)
    return off


def apply_spec(t, ops, i, events):
    """apply the reference model's ops for the byte at p+i (ages relative to p)"""
    for op in ops:
        k = op[0]
        if k == "set":
            base = op[1].rsplit("_", 1)[0]
            partname = {"name": "name", "dn": "dn", "pub": "pub", "sys": "sys", "an": "an", "av": "av"}.get(base)
            if partname and partname in t.have and not (partname in ("an", "av") and t.kind != "start_tag"):
                raise Mismatch("the reference still changes the %s of the current token after lol-html finalised it" % {"an": "attribute name", "av": "attribute value", "dn": "doctype name", "pub": "public id", "sys": "system id"}.get(partname, partname))
            if base in ("an", "av") and t.kind == "start_tag" and not t.attr_open:
                raise Mismatch("the reference still extends an attribute that lol-html already completed")
            t.regs[op[1]] = -(i + op[2])
        elif k == "clr":
            t.regs.pop(op[1], None)
        elif k == "flag":
            if op[1] == "self_closing":
                t.sc = op[2]
            elif op[1] == "force_quirks":
                t.fq = op[2]
        elif k == "create":
            if op[1] in ("start_tag", "end_tag"):
                t.kind, t.sc, t.attr_open, t.nattr, t.have = op[1], False, False, 0, t.have - {"name"}
                for r_ in ("name_s", "name_e", "an_s", "an_e", "av_s", "av_e"):
                    t.regs.pop(r_, None)
            elif op[1] == "comment":
                t.tok = "comment"
            else:
                t.tok, t.fq = "doctype", False
                t.have = t.have - {"dn", "pub", "sys"}
                for r_ in ("dn_s", "dn_e", "pub_s", "pub_e", "sys_s", "sys_e"):
                    t.regs.pop(r_, None)
        elif k == "new_attr":
            if t.kind == "start_tag":
                if t.attr_open:
                    events.append(("attr_done", attr_snapshot(t)))
                    t.nattr = (t.nattr + 1) % 4
                t.attr_open = True
                t.have = t.have - {"an", "av"}
                for r_ in ("an_s", "an_e", "av_s", "av_e"):
                    t.regs.pop(r_, None)
                events.append(("attr_start", None))
        elif k in ("emit", "emit_at_eof"):
            end = -(i + 1) if k == "emit" else -i
            kind = op[1]
            if kind == "tag" and t.attr_open:
                events.append(("attr_done", attr_snapshot(t)))
                t.attr_open = False
                t.nattr = (t.nattr + 1) % 4
            events.append(("emit", snapshot(t, kind, end)))
            if kind == "tag":
                t.kind = None
            else:
                t.tok = None
        elif k in ("drop", "drop_at_eof"):
            end = -(i + 1) if k == "drop" else -i
            if k == "drop_at_eof" and t.regs.get("mark") == end:
                pass
            else:
                events.append(("emit", {"kind": "drop", "start": t.regs.get("mark"), "end": end}))
            if t.attr_open:
                t.attr_open = False
        elif k == "eof":
            events.append(("eof", None))
        else:
            raise EngineError("spec op " + str(op))


# ----------------------------------------------------------------------------------------------
def canon(tl, ts, shift):
    """shift all ages by `shift` (bytes consumed) and canonicalise jointly.
    Ages up to EXACT are kept exactly (position arithmetic and retroactive marks reach back at most
    7 bytes); older values only ever take part in equality tests between the two sides, so they are
    replaced by their rank (order and equality preserved)."""
    vals = set()
    for t in (tl, ts):
        for r_, v in t.regs.items():
            if v is not None:
                t.regs[r_] = v + shift
                vals.add(v + shift)
    old = sorted(v for v in vals if v > EXACT)
    m = {v: EXACT + 1 + i for i, v in enumerate(old)}
    for t in (tl, ts):
        for r_ in list(t.regs):
            v = t.regs[r_]
            if v is not None and v > EXACT:
                t.regs[r_] = m[v]
    return tl, ts


MARK_USES = {"emit_tag", "emit_current_token", "emit_current_token_and_eof", "emit_raw_without_token", "emit_raw_without_token_and_eof"}
MARK_DEFS = {"emit_text", "emit_text_and_eof"} | MARK_USES
TPS_USES = {"finish_tag_name", "finish_attr_name", "finish_attr_value", "mark_comment_text_end", "finish_doctype_name", "finish_doctype_public_id", "finish_doctype_system_id"}
TPS_DEFS = {"start_token_part", "start_attr"}


def liveness(g, uses, defs):
    """backward may-liveness of a register over the automaton graph: node -> bool"""
    live = {n: False for n in g.nodes}
    changed = True
    while changed:
        changed = False
        for e in g.edges():
            v = live[e.dst] if e.dst is not None else False
            for a in reversed(e.names()):
                if a in uses:
                    v = True
                elif a in defs:
                    v = False
            if v and not live[e.src]:
                live[e.src] = True
                changed = True
    return live


def live_regs(t, side, mark_live=True, tps_live=True):
    """drop registers that can no longer influence a comparison (keeps the state space small)"""
    keep = set()
    if mark_live:
        keep.add("mark")
    if side == "L" and tps_live:
        keep.add("tps")
    if t.kind:
        if "name" not in t.have:
            keep |= {"name_s", "name_e"}
        if t.attr_open and t.kind == "start_tag":
            if "an" not in t.have:
                keep |= {"an_s", "an_e"}
            if "av" not in t.have:
                keep |= {"av_s", "av_e"}
    if t.tok == "comment":
        keep |= {"c_s", "c_e"}
    if t.tok == "doctype":
        for nm in ("dn", "pub", "sys"):
            if nm not in t.have:
                keep |= {nm + "_s", nm + "_e"}
    for r_ in list(t.regs):
        if r_ not in keep:
            del t.regs[r_]


def norm_event(ev, add):
    k, d = ev
    if d is None:
        return (k, None)
    out = {}
    for kk, v in d.items():
        if isinstance(v, tuple):
            out[kk] = (v[0] + add, v[1] + add)
        elif kk in ("start", "end") and isinstance(v, int):
            out[kk] = v + add
        else:
            out[kk] = v
    return (k, tuple(sorted(out.items(), key=lambda x: x[0])))


class Mismatch(Exception):
    pass


class Explorer:
    def __init__(self, graph, aut):
        self.g = graph
        self.aut = aut
        self.specm = load_spec()
        self.spec = self.specm.Spec()
        self.part_cache = {}
        self.mark_live = liveness(graph, MARK_USES, MARK_DEFS)
        self.tps_live = liveness(graph, TPS_USES, TPS_DEFS)
        # closing_quote is only consulted in states that have a `closing_quote` arm (and set right before them)
        self.uses_cq = {}
        for n in graph.nodes:
            self.uses_cq[n] = any(e.leaf is not None and e.leaf["cq"] is not None for e in graph.out[n]) or any(
                e2.leaf is not None and e2.leaf["cq"] is not None for e in graph.out[n] if e.dst for e2 in graph.out[e.dst])
        self.pairs = set()
        self.steps = 0
        self.emissions = 0
        self.attr_compared = 0
        self.ranges_compared = 0
        self.mismatches = []
        self.samples = []

    def spec_partition(self, sstate, oracle_key, oracle):
        key = (sstate, oracle_key)
        if key not in self.part_cache:
            groups = {}
            for c in range(257):
                ops, nxt = self.spec.step(sstate, c, oracle)
                groups.setdefault((tuple(ops), nxt), []).append(c)
            self.part_cache[key] = [(mask_of(cs), cs[0], ops, nxt) for (ops, nxt), cs in groups.items()]
        return self.part_cache[key]

    def explore(self, limit=400000):
        tmap = self.aut.text_state_map
        start = []
        for ty in TEXT_TYPES:
            tl, ts = Tok(), Tok()
            tl.regs["mark"] = 0
            start.append((tmap[ty], self.specm.TEXT_STATES[ty], tl, ts, (), (), ty))
        seen = set()
        dq = deque()
        for c in start:
            dq.append((c, None))
        while dq:
            cfg, parent = dq.popleft()
            key = self.cfg_key(cfg)
            if key in seen:
                continue
            seen.add(key)
            self.pairs.add((cfg[0], cfg[1] if isinstance(cfg[1], str) else cfg[1][0]))
            if len(seen) > limit:
                raise EngineError("R03.1: state space larger than %d configurations" % limit)
            try:
                for nxt in self.successors(cfg):
                    dq.append((nxt, cfg))
            except Mismatch as m:
                self.mismatches.append(str(m))
                if len(self.mismatches) > 40:
                    break
        self.configs = len(seen)

    def cfg_key(self, cfg):
        ln, ss, tl, ts, window, pend, ty = cfg
        return (ln, ss, tl.key("L"), tuple(sorted(tl.regs.items())), ts.key("S"), tuple(sorted(ts.regs.items())), window, pend, ty)

    # ------------------------------------------------------------------
    def successors(self, cfg):
        ln, ss, tl, ts, window, pend, ty = cfg
        out = []
        es = self.g.out[ln]
        if len(es) == 1 and es[0].kind == "enter":
            tl2 = tl.clone()
            ev = []
            apply_lol(tl2, es[0].acts, 0, ev, None)
            if ev:
                raise EngineError("enter actions with events")
            out.append((es[0].dst, ss, tl2, ts, window, pend, ty))
            return out
        state_name = ln.split("#")[0]
        NB = 1 << NONE
        for leaf in self.aut.states[state_name]["leaves"]:
            c0 = leaf["c0"]
            if c0 is None:
                continue
            if leaf["cq"] is not None and tl.cq is not None and leaf["cq"] != tl.cq:
                continue
            la = leaf["la"]
            # ---- end of input as the current symbol
            if (c0 & NB) and leaf["last"] is not False and not la:
                m0 = NB & (window[0] if window else ALL)
                if m0:
                    out += self.take_leaf(cfg, leaf, [NB], True)
            # ---- a byte as the current symbol
            m0 = c0 & BYTES & (window[0] if window else ALL)
            if not m0:
                continue
            if leaf["last"] is True:
                # duplicates of the last=false leaves unless the end of input shows up in a look-ahead position
                if not any(mk & NB for mk in la.values()):
                    continue
                variants = []
                for k in sorted(la):
                    if la[k] & NB:
                        variants.append(k)
                for keof in variants:
                    w = list(window) + [ALL] * max(0, 9 - len(window))
                    w[0] = m0
                    ok = True
                    for k in sorted(la):
                        if k < keof:
                            mm = la[k] & BYTES & w[k]
                        elif k == keof:
                            mm = NB & w[k]
                        else:
                            ok = False
                            break
                        if not mm:
                            ok = False
                            break
                        w[k] = mm
                    if not ok:
                        continue
                    for k in range(keof + 1, len(w)):
                        w[k] = NB if (w[k] & NB) else 0
                    if any(x == 0 for x in w[keof + 1:]):
                        continue
                    w = w[: keof + 1]
                    out += self.take_leaf(cfg, leaf, w, False)
                continue
            if leaf["last"] is False and any(not (mk & BYTES) for mk in la.values()):
                continue          # end-of-chunk break inside a look-ahead: decided by R02.1, not an input symbol here
            w = list(window) + [ALL] * max(0, 9 - len(window))
            w[0] = m0
            ok = True
            for k, mk in la.items():
                mm = mk & BYTES & w[k]
                if not mm:
                    ok = False
                    break
                w[k] = mm
            if not ok:
                continue
            while len(w) > 1 and w[-1] == ALL:
                w.pop()
            out += self.take_leaf(cfg, leaf, w, False)
        return out

    def take_leaf(self, cfg, leaf, w, is_eof):
        ln, ss, tl, ts, window, pend, ty = cfg
        term = leaf["term"]
        consumed = term["consumed"]
        if term["t"] == "break" and not is_eof:
            return []      # end-of-chunk break (decided by R02.1)
        tl2 = tl.clone()
        evL = []
        apply_lol(tl2, leaf["acts"], 0, evL, None)
        if tl2.cq is None and leaf["cq"] is not None:
            tl2.cq = leaf["cq"]
        oracle = {"appropriate": leaf["conds"].get("is_appropriate_end_tag"), "cdata_allowed": leaf["conds"].get("cdata_allowed")}
        # oracle answers given while this byte was being re-dispatched (reconsume) stay valid for it
        for e in pend:
            if e[0] == "oracle":
                for k_, v_ in e[1]:
                    if oracle.get(k_) is None:
                        oracle[k_] = v_
        carried = tuple(sorted((k_, v_) for k_, v_ in oracle.items() if v_ is not None))
        pend_ev = tuple(e for e in pend if e[0] != "oracle")
        pend_keep = pend_ev + ((("oracle", carried),) if carried else ())
        if is_eof:
            # L handles EOF: possibly reconsuming into another state first
            if term["t"] == "goto":
                pend2 = pend_keep + tuple(norm_event(e, 0) for e in evL)
                return [(term["state"], ss, tl2, ts, tuple(w), pend2, ty)]
            # break: S consumes EOF too
            results = []
            for ora in self.oracles(oracle):
                ts2 = ts.clone()
                evS = []
                ops, nxt = self.spec.step(ss, EOFSYM, ora)
                apply_spec(ts2, ops, 0, evS)
                self.compare(cfg, leaf, list(pend_ev) + [norm_event(e, 0) for e in evL], [norm_event(e, 0) for e in evS], "at end of input", ts_after=ts2)
            return results
        if consumed == 0:
            pend2 = pend_keep + tuple(norm_event(e, 0) for e in evL)
            nxt_node = self.next_node(term, None)
            return [(nxt_node, ss, tl2, ts, tuple(w), pend2, ty)]
        # S consumes `consumed` bytes, each constrained by w[i]
        results = []
        for ora in self.oracles(oracle):
            for (ts3, ss3, evS) in self.spec_run(ss, ts.clone(), w, consumed, ora):
                ref = consumed - 1
                EL = [norm_event((e[0], dict(e[1]) if e[1] else None), ref) if False else e for e in pend_ev]
                EL = [self.shift_event(e, ref) for e in pend_ev] + [norm_event(e, ref) for e in evL]
                ES = [norm_event(e, ref) for e in evS]
                tau = self.compare(cfg, leaf, EL, ES, "", ts_after=ts3, ref=ref)
                tl3 = tl2.clone()
                ts4 = ts3.clone()
                nxt_for_live = term["state"] if term["t"] == "goto" else (cfg[0] if term["t"] == "stay" else None)
                ml = self.mark_live.get(nxt_for_live, False) if nxt_for_live else False
                tlv = self.tps_live.get(nxt_for_live, False) if nxt_for_live else False
                live_regs(tl3, "L", ml, tlv); live_regs(ts4, "S", ml, tlv)
                for t_ in (tl3, ts4):
                    if not t_.kind and not t_.tok:
                        t_.have = frozenset()
                    if not t_.kind:
                        t_.sc, t_.nattr, t_.attr_open = False, 0, False
                    if t_.tok != "doctype":
                        t_.fq = False
                if nxt_for_live and not self.uses_cq.get(nxt_for_live, False):
                    tl3.cq = None
                canon(tl3, ts4, consumed)
                neww = tuple(w[consumed:])
                while neww and neww[-1] == ALL:
                    neww = neww[:-1]
                if term["t"] == "dyn":
                    if not isinstance(ss3, tuple) or ss3[0] != "AWAIT_TEXT":
                        raise Mismatch(f"{describe_leaf(cfg[0], leaf)}: lol-html asks the tree builder for the next text state but the reference continues in {ss3}")
                    # the tree builder picks the text state: all six after a start tag, Data after an end tag
                    choices = TEXT_TYPES if tau == "start_tag" else ["Data"]
                    for ty2 in choices:
                        results.append((self.aut.text_state_map[ty2], self.specm.TEXT_STATES[ty2], tl3.clone(), ts4.clone(), neww, (), ty2))
                else:
                    if isinstance(ss3, tuple) and ss3[0] == "AWAIT_TEXT":
                        raise Mismatch(f"{describe_leaf(cfg[0], leaf)}: the reference emits a tag here (tree builder chooses the next state) but lol-html continues in a fixed state")
                    ty2 = ty
                    results.append((self.next_node(term, cfg[0]), ss3, tl3, ts4, neww, (), ty2))
        self.steps += 1
        return results

    @staticmethod
    def shift_event(e, add):
        """pending events were normalised with reference 0 (same byte); re-reference them"""
        if e[1] is None or add == 0:
            return e
        out = []
        for kk, v in e[1]:
            if isinstance(v, tuple):
                out.append((kk, (v[0] + add, v[1] + add)))
            elif kk in ("start", "end") and isinstance(v, int):
                out.append((kk, v + add))
            else:
                out.append((kk, v))
        return (e[0], tuple(out))

    def oracles(self, oracle):
        keys = [k for k, v in oracle.items() if v is None]
        base = {k: v for k, v in oracle.items() if v is not None}
        # conditions not consulted by lol-html on this leaf may still be consulted by the reference: enumerate
        outs = [dict(base)]
        for k in keys:
            outs = [dict(o, **{k: val}) for o in outs for val in (False, True)]
        return outs

    def spec_run(self, ss, ts, w, n, oracle):
        """all ways the reference consumes n bytes constrained by w[0..n)"""
        front = [(ss, ts, [])]
        for i in range(n):
            mask = w[i] if i < len(w) else ALL
            nxt_front = []
            for (s, t, ev) in front:
                if s == "END" or (isinstance(s, tuple) and s[0] == "AWAIT_TEXT"):
                    raise Mismatch(f"the reference emitted a tag / ended while lol-html was still consuming a look-ahead sequence (state {s})")
                okey = (oracle.get("appropriate"), oracle.get("cdata_allowed"))
                for (cm, rep, ops, ns) in self.spec_partition(s, okey, oracle):
                    if cm & mask:
                        t2 = t.clone()
                        ev2 = list(ev)
                        apply_spec(t2, ops, i, ev2)
                        nxt_front.append((ns, t2, ev2))
            front = nxt_front
        return [(t, s, ev) for (s, t, ev) in front]

    def next_node(self, term, cur):
        if term["t"] == "goto":
            return term["state"]
        if term["t"] == "stay":
            return cur
        raise EngineError("next_node " + str(term))

    def compare(self, cfg, leaf, EL, ES, where, ts_after=None, ref=0):
        """emissions / eof / attribute starts must agree event by event; every attribute lol-html
        completes is compared with the reference's view of that attribute (its own attr_done event
        in the same step, else the reference's current attribute)"""
        def proj(evs):
            return [e for e in evs if e[0] in ("emit", "eof", "attr_start")]
        PARTS = {"name": ("name_s", "name_e"), "dn": ("dn_s", "dn_e"), "pub": ("pub_s", "pub_e"), "sys": ("sys_s", "sys_e"), "an": ("an_s", "an_e"), "av": ("av_s", "av_e")}
        matched = {}
        for e in ES:
            if e[0] == "emit" and ts_after is not None:
                pass
        for e in EL:
            if e[0] == "range":
                d = dict(e[1])
                nm = d["part"]
                if ts_after is None:
                    continue
                rv = rng(ts_after, *PARTS[nm])
                if nm == "av" and rv is None:
                    rv = "empty"
                other = norm_event(("range", {"part": nm, "r": rv}), ref)
                if nm in ("an", "av"):
                    # the reference may already have closed this attribute in the same step (new attribute / emission)
                    for e2 in ES:
                        if e2[0] == "attr_done":
                            d2 = dict(e2[1])
                            key2 = "name" if nm == "an" else "value"
                            if d2.get(key2) not in (None, "compared"):
                                other = ("range", (("part", nm), ("r", d2[key2])))
                                matched["attr:" + nm] = True
                # the reference may have emitted in this very step: then its emit snapshot still shows the raw range
                sval = None
                for e2 in ES:
                    if e2[0] == "emit":
                        d2 = dict(e2[1])
                        key2 = "name" if nm in ("name", "dn") else nm
                        if key2 in d2 and d2[key2] not in (None, "compared"):
                            sval = ("range", (("part", nm), ("r", d2[key2])))
                if sval is not None:
                    other = sval
                    matched[nm] = True
                if nm in ts_after.have or e != other:
                    raise Mismatch("the %s range differs in (%s | %s) on %s: lol-html %s, reference %s" % (nm, cfg[0], cfg[1], describe_leaf(cfg[0].split("#")[0], leaf), self.fmt(e), self.fmt(other)))
                ts_after.regs.pop(PARTS[nm][0], None); ts_after.regs.pop(PARTS[nm][1], None)
                ts_after.have = ts_after.have | {nm}
                self.ranges_compared += 1
        la = [e for e in EL if e[0] == "attr_done"]
        sa = [e for e in ES if e[0] == "attr_done"]
        for i, e in enumerate(la):
            if i < len(sa):
                other = sa[i]
                d2 = dict(other[1])
                if matched.get("attr:an"):
                    d2["name"] = "compared"
                if matched.get("attr:av"):
                    d2["value"] = "compared"
                other = ("attr_done", tuple(sorted(d2.items(), key=lambda x: x[0])))
            elif ts_after is not None and ts_after.attr_open:
                other = norm_event(("attr_done", attr_snapshot(ts_after)), ref)
                # the reference's attribute is complete too: close it so it is not counted twice
                ts_after.attr_open = False
                ts_after.nattr = (ts_after.nattr + 1) % 4
                for r_ in ("an_s", "an_e", "av_s", "av_e"):
                    ts_after.regs.pop(r_, None)
            else:
                other = None
            if other is None or e != other:
                raise Mismatch("attribute boundaries differ in (%s | %s) on %s: lol-html records %s, the reference %s" % (cfg[0], cfg[1], describe_leaf(cfg[0].split("#")[0], leaf), self.fmt(e), self.fmt(other) if other else None))
            self.attr_compared += 1
        pl, ps = proj(EL), proj(ES)
        if matched:
            ps2 = []
            for e in ps:
                if e[0] == "emit":
                    d2 = dict(e[1])
                    for nm in matched:
                        key2 = "name" if nm in ("name", "dn") else nm
                        if key2 in d2:
                            d2[key2] = "compared"
                    e = ("emit", tuple(sorted(d2.items(), key=lambda x: x[0])))
                ps2.append(e)
            ps = ps2
        kind = None
        for e in pl:
            if e[0] == "emit":
                self.emissions += 1
                d = dict(e[1])
                if d.get("kind") == "tag":
                    kind = d.get("tag")
        if pl != ps:
            raise Mismatch(self.describe(cfg, leaf, pl, ps, where))
        if len(self.samples) < 6 and any(e[0] == "emit" for e in pl):
            self.samples.append({"lol_leaf": describe_leaf(cfg[0].split("#")[0], leaf), "spec_state": str(cfg[1]), "agreed_events": [self.fmt(e) for e in pl][:3]})
        return kind

    def describe(self, cfg, leaf, pl, ps, where):
        return ("lol-html and the WHATWG reference disagree %s in (%s | %s) on %s: lol-html events %s, reference events %s" %
                (where, cfg[0], cfg[1], describe_leaf(cfg[0].split("#")[0], leaf), [self.fmt(e) for e in pl], [self.fmt(e) for e in ps]))

    @staticmethod
    def fmt(e):
        if e[1] is None:
            return e[0]
        return e[0] + str(dict(e[1]))


# ----------------------------------------------------------------------------------------------
def run_spec(data, text_type="Data", oracle=None):
    """drive the reference model over concrete bytes (used only to sanity-check the *model* against
    well-known tokenizations from the specification; lol-html is not involved)"""
    specm = load_spec()
    sp = specm.Spec()
    st = specm.TEXT_STATES[text_type]
    t = Tok()
    toks = []
    oracle = oracle or {"appropriate": True, "cdata_allowed": False}
    regs_abs = {}
    for p, c in enumerate(list(data) + [EOFSYM]):
        ops, st = sp.step(st, c, oracle)
        ev = []
        # absolute positions: emulate ages with p as reference
        for r_ in list(t.regs):
            pass
        apply_spec(t, ops, 0, ev)
        for e in ev:
            if e[0] == "emit":
                d = dict(e[1]) if isinstance(e[1], dict) else e[1]
                def ab(v):
                    if isinstance(v, tuple):
                        return bytes(data[p - v[0]: p - v[1]])
                    return v
                out = {k: ab(v) for k, v in d.items() if k not in ("start", "end")}
                if isinstance(d.get("start"), int) and isinstance(d.get("end"), int):
                    out["raw"] = bytes(data[p - d["start"]: p - d["end"]])
                toks.append(out)
            elif e[0] == "attr_done":
                d = e[1]
                def ab(v):
                    if isinstance(v, tuple):
                        return bytes(data[p - v[0]: p - v[1]])
                    return b"" if v == "empty" else v
                toks.append({"kind": "attr", "name": ab(d["name"]), "value": ab(d["value"])})
        # age all registers by one byte
        for r_ in list(t.regs):
            if t.regs[r_] is not None:
                t.regs[r_] += 1
        if isinstance(st, tuple) and st[0] == "AWAIT_TEXT":
            st = "data"
        if st == "END":
            break
    return toks


def spec_selfcheck():
    """well-known facts about the WHATWG tokenizer the reference model must reproduce"""
    def toks(s, **kw):
        return run_spec(s.encode("latin-1"), **kw)
    def only(ts, kind):
        return [t for t in ts if t.get("kind") == kind]
    checks = []
    c = only(toks("<!--a--!>x"), "comment")
    checks.append(("comment end bang", len(c) == 1 and c[0]["data"] == b"a" and c[0]["raw"] == b"<!--a--!>"))
    c = only(toks("<!-- a --- b --x-->"), "comment")
    checks.append(("dashes inside comment", len(c) == 1 and c[0]["data"] == b" a --- b --x"))
    c = only(toks("<!-->x"), "comment")
    checks.append(("abrupt empty comment", len(c) == 1 and c[0]["data"] == "empty" and c[0]["raw"] == b"<!-->"))
    c = only(toks("<!--<!--x-->"), "comment")
    checks.append(("nested comment open", len(c) == 1 and c[0]["data"] == b"<!--x"))
    c = only(toks("<?php x?>y"), "comment")
    checks.append(("bogus comment", len(c) == 1 and c[0]["data"] == b"?php x?"))
    c = only(toks("<!doc>"), "comment")
    checks.append(("incorrectly opened comment", len(c) == 1 and c[0]["data"] == b"doc"))
    t_ = toks("<a b=c d e='f g' h=\"\">")
    attrs = [(x["name"], x["value"]) for x in only(t_, "attr")]
    checks.append(("attributes", attrs == [(b"b", b"c"), (b"d", b""), (b"e", b"f g"), (b"h", b"")]))
    tg = only(t_, "tag")
    checks.append(("start tag", len(tg) == 1 and tg[0]["name"] == b"a" and tg[0]["tag"] == "start_tag" and tg[0]["raw"].endswith(b">")))
    tg = only(toks("<br/>"), "tag")
    checks.append(("self closing", len(tg) == 1 and tg[0]["self_closing"] is True))
    tg = only(toks("<a/b>"), "tag")
    checks.append(("solidus in tag", len(tg) == 1 and tg[0]["self_closing"] is False))
    d = only(toks("<!DOCTYPE html PUBLIC \"-//W3C\" 'sys'>"), "doctype")
    checks.append(("doctype ids", len(d) == 1 and d[0]["name"] == b"html" and d[0]["pub"] == b"-//W3C" and d[0]["sys"] == b"sys" and d[0]["force_quirks"] is False))
    d = only(toks("<!DOCTYPE html PUBLIC>"), "doctype")
    checks.append(("doctype missing id", len(d) == 1 and d[0]["force_quirks"] is True and d[0]["pub"] is None))
    tg = only(toks("x</title>y", text_type="RCData"), "tag")
    checks.append(("rcdata end tag", len(tg) == 1 and tg[0]["tag"] == "end_tag" and tg[0]["name"] == b"title"))
    tg = only(toks("x</title>y", text_type="RCData", oracle={"appropriate": False, "cdata_allowed": False}), "tag")
    checks.append(("rcdata inappropriate end tag is text", tg == []))
    tg = only(toks("<!--<script></script>-->x</script>", text_type="ScriptData"), "tag")
    checks.append(("script double escape", len(tg) == 1 and tg[0]["raw"] == b"</script>" and True))
    dr = only(toks("a]]>b", text_type="CDataSection"), "drop")
    checks.append(("cdata end", len(dr) == 1 and dr[0]["raw"] == b"]]>"))
    dr = only(toks("</>"), "drop")
    checks.append(("empty end tag dropped", len(dr) == 1 and dr[0]["raw"] == b"</>"))
    bad = [n for n, ok in checks if not ok]
    return len(checks), bad
