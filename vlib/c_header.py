"""E-HDR: a small declaration reader for c-api/include/lol_html.h (function prototypes, struct fields)."""
import os
import re
from .facts import REPO, EngineError


def _strip(text):
    text = re.sub(r"/\*.*?\*/", " ", text, flags=re.S)
    text = re.sub(r"//[^\n]*", " ", text)
    text = re.sub(r"^\s*#.*$", " ", text, flags=re.M)
    return text


def split_params(s):
    out, depth, cur = [], 0, ""
    prev = ""
    for ch in s:
        if ch in "(<[":
            depth += 1
        elif ch in ")]" or (ch == ">" and prev != "-"):
            depth -= 1
        prev = ch
        if ch == "," and depth == 0:
            out.append(cur.strip())
            cur = ""
        else:
            cur += ch
    if cur.strip():
        out.append(cur.strip())
    return out


def classify_c(t, typedefs):
    """coarse ABI class of a C parameter/return type"""
    t = re.sub(r"\s+", " ", t.strip())
    if "(*" in t:
        return "fnptr"
    base = re.sub(r"\b(const|struct|enum)\b", "", t).strip()
    is_ptr = "*" in base
    name = base.replace("*", "").strip().split(" ")[0] if base.replace("*", "").strip() else ""
    if is_ptr:
        if name == "char":
            return "ptr:char"
        if name == "void":
            return "ptr:void"
        return "ptr:" + typedefs.get(name, name)
    if name in ("size_t",):
        return "usize"
    if name == "int":
        return "i32"
    if name in ("bool", "_Bool"):
        return "bool"
    if name == "void" or name == "":
        return "void"
    td = typedefs.get(name, name)
    if td.startswith("fnptr"):
        return "fnptr"
    return "struct:" + td


def parse_header(path=None):
    path = path or os.path.join(REPO, "c-api", "include", "lol_html.h")
    if not os.path.exists(path):
        raise EngineError("anchor: " + path)
    text = _strip(open(path).read())
    typedefs = {}
    structs = {}
    # opaque typedefs: typedef struct lol_html_X lol_html_x_t;
    for m in re.finditer(r"typedef\s+struct\s+(\w+)\s+(\w+)\s*;", text):
        typedefs[m.group(2)] = re.sub(r"^lol_html_", "", m.group(1))
    # struct typedefs with body
    for m in re.finditer(r"typedef\s+struct\s*(\w*)\s*\{(.*?)\}\s*(\w+)\s*;", text, flags=re.S):
        fields = []
        for fld in split_params(m.group(2).replace(";", ",")):
            fld = fld.strip()
            if not fld:
                continue
            fm = re.match(r"(.*?)(\w+)$", fld) if "(*" not in fld else re.match(r".*\(\*\s*(\w+)\s*\)", fld)
            if "(*" in fld:
                fields.append((re.match(r".*\(\*\s*(\w+)\s*\)", fld).group(1), "fnptr"))
            else:
                fields.append((fm.group(2), fm.group(1).strip()))
        name = m.group(3)
        structs[name] = fields
        typedefs[name] = re.sub(r"^lol_html_", "", m.group(1)) if m.group(1) else name
    for m in re.finditer(r"typedef\s+enum\s*\{(.*?)\}\s*(\w+)\s*;", text, flags=re.S):
        typedefs[m.group(2)] = "enum:" + m.group(2)
    for m in re.finditer(r"typedef\s+[\w\s\*]+?\(\*\s*(\w+)\s*\)\s*\(", text):
        typedefs[m.group(1)] = "fnptr:" + m.group(1)
    # remove typedef blocks so prototypes remain
    body = re.sub(r"typedef\s+(struct|enum)\s*\w*\s*\{.*?\}\s*\w+\s*;", " ", text, flags=re.S)
    body = re.sub(r"typedef\s+[^;{}]*?\(\*\s*\w+\s*\)\s*\([^;]*?\)\s*;", " ", body, flags=re.S)
    body = re.sub(r"typedef\s+[^;]*;", " ", body)
    body = re.sub(r'extern\s+"C"\s*\{', " ", body)
    funcs = {}
    for m in re.finditer(r"([\w\s\*]+?)\b(\w+)\s*\(((?:[^()]|\([^()]*\))*)\)\s*;", body, flags=re.S):
        ret, name, params = m.group(1).strip(), m.group(2), m.group(3).strip()
        if not name.startswith(("lol_html_", "unstable_lol_html_")):
            continue
        ps = [] if params in ("", "void") else split_params(params)
        pcls = []
        for p in ps:
            if "(*" in p:
                pcls.append("fnptr")
            else:
                pm = re.match(r"(.*?)(\w+)$", p.strip())
                pcls.append(classify_c(pm.group(1) if pm and pm.group(1).strip() else p, typedefs))
        funcs[name] = {"ret": classify_c(ret, typedefs), "params": pcls, "raw": re.sub(r"\s+", " ", m.group(0))[:200]}
    return {"funcs": funcs, "structs": structs, "typedefs": typedefs}


def classify_rust(t):
    t = t.strip()
    if re.match(r"^(std::option::Option<)?\s*(for<[^>]*>\s*)?(unsafe\s+)?extern\b", t):
        return "fnptr"
    if t.startswith("*const ") or t.startswith("*mut ") or t.startswith("&"):
        inner = re.sub(r"^(\*const |\*mut |&'?\w* ?(mut )?)", "", t)
        inner = inner.strip()
        if inner in ("i8", "u8", "libc::c_char", "std::ffi::c_char"):
            return "ptr:char"
        if inner in ("libc::c_void", "std::ffi::c_void", "core::ffi::c_void"):
            return "ptr:void"
        base = re.sub(r"<.*>", "", inner).split("::")[-1]
        return "ptr:" + base
    if t == "usize":
        return "usize"
    if t == "i32":
        return "i32"
    if t == "bool":
        return "bool"
    if t in ("()", ""):
        return "void"
    base = re.sub(r"<.*>", "", t).split("::")[-1]
    return "struct:" + base


def parse_rust_sig(sig):
    """'unsafe extern "C" fn(*mut Comment, usize) -> i32' -> (params classes, ret class)"""
    m = re.match(r'^(?:for<[^>]*>\s*)?(?:unsafe\s+)?extern\s+"C"\s+fn\((.*)\)(?:\s*->\s*(.*))?$', sig.strip(), flags=re.S)
    if not m:
        return None
    params = split_params(m.group(1)) if m.group(1).strip() else []
    ret = m.group(2) or "()"
    return [classify_rust(p) for p in params], classify_rust(ret)
