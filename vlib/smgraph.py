"""Graph view of the extracted tokenizer automaton + small dataflow helpers."""
from .sm import NONE, ALL, BYTES, TEXT_STATES, fmt_mask, describe_leaf, extract
from .facts import EngineError
import os, pickle

_cached = {}


def automaton(features=()):
    key = tuple(features)
    if key not in _cached:
        from . import facts
        p = os.path.join(facts._cache_dir(), "automaton-%s%s.pkl" % ("+".join(features) or "default", "+release" if facts.profile() == "release" else ""))
        if os.path.exists(p):
            with open(p, "rb") as fh:
                _cached[key] = pickle.load(fh)
        else:
            a = extract(features=features)
            tmp = "%s.%d.tmp" % (p, os.getpid())  # several checks may build the cache at the same time
            with open(tmp, "wb") as fh:
                pickle.dump(a, fh)
            os.replace(tmp, p)
            _cached[key] = a
    return _cached[key]


class Edge:
    __slots__ = ("src", "dst", "leaf", "acts", "consumed", "kind", "inline", "c0", "state")

    def __init__(self, src, dst, leaf, acts, consumed, kind, inline, c0, state):
        self.src = src
        self.dst = dst          # node name or None (break)
        self.leaf = leaf        # the leaf dict (None for the enter epsilon edge)
        self.acts = acts        # non-internal + internal action dicts, in order
        self.consumed = consumed
        self.kind = kind        # goto | dyn | stay | break | enter
        self.inline = inline
        self.c0 = c0            # mask of first symbols (ALL for enter edges)
        self.state = state      # DSL state name this edge belongs to

    def names(self, internal=False):
        return [a["name"] for a in self.acts if internal or not a.get("internal")]

    def describe(self):
        if self.leaf is None:
            return "%s <-- (%s)" % (self.state, "; ".join(self.names()))
        return describe_leaf(self.state, self.leaf)


class Graph:
    """nodes: state names; states with enter actions get an extra node '<name>#body'."""

    def __init__(self, aut):
        self.aut = aut
        self.nodes = []
        self.out = {}
        self.text_nodes = list(aut.text_state_map.values())
        for name, st in aut.states.items():
            body = name
            if st["enter"] is not None:
                body = name + "#body"
                self.nodes.append(name)
                self.out[name] = [Edge(name, body, None, st["enter"], 0, "enter", True, ALL, name)]
            self.nodes.append(body)
            es = []
            for l in st["leaves"]:
                t = l["term"]
                c0 = l["c0"] if l["c0"] is not None else ALL
                if t["t"] == "goto":
                    es.append(Edge(body, t["state"], l, l["acts"], t["consumed"], "goto", t["inline"], c0, name))
                elif t["t"] == "dyn":
                    for tn in self.text_nodes:
                        es.append(Edge(body, tn, l, l["acts"], t["consumed"], "dyn", False, c0, name))
                elif t["t"] == "stay":
                    es.append(Edge(body, body, l, l["acts"], t["consumed"], "stay", False, c0, name))
                elif t["t"] == "break":
                    es.append(Edge(body, None, l, l["acts"], t["consumed"], "break", False, c0, name))
                else:
                    raise EngineError("unknown terminal " + t["t"])
            self.out[body] = es
        for n, es in self.out.items():
            for e in es:
                if e.dst is not None and e.dst not in self.out:
                    raise EngineError("E-SM: edge to unknown state " + str(e.dst))

    def edges(self):
        for n in self.nodes:
            for e in self.out[n]:
                yield e

    def reachable(self, starts, edge_filter=None):
        seen = set(starts)
        todo = list(starts)
        while todo:
            n = todo.pop()
            for e in self.out[n]:
                if e.dst is None or (edge_filter and not edge_filter(e)):
                    continue
                if e.dst not in seen:
                    seen.add(e.dst)
                    todo.append(e.dst)
        return seen

    def find_cycle(self, edge_filter):
        """Return a list of edges forming a cycle among edges accepted by edge_filter, or None."""
        color = {}
        stack_edges = []

        def dfs(n):
            color[n] = 1
            for e in self.out[n]:
                if e.dst is None or not edge_filter(e):
                    continue
                c = color.get(e.dst, 0)
                if c == 1:
                    # found
                    cyc = [e]
                    for pe in reversed(stack_edges):
                        if pe.dst == n or True:
                            cyc.append(pe)
                        if pe.src == e.dst:
                            break
                    return list(reversed(cyc))
                if c == 0:
                    stack_edges.append(e)
                    r = dfs(e.dst)
                    stack_edges.pop()
                    if r:
                        return r
            color[n] = 2
            return None

        import sys
        sys.setrecursionlimit(10000)
        for n in self.nodes:
            if color.get(n, 0) == 0:
                r = dfs(n)
                if r:
                    return r
        return None

    def forward_may(self, gen, kill, init_true=()):
        """May-analysis of a boolean fact along edges.  gen/kill: sets of action names.
        Returns (fact_in[node] -> bool, witness[node] -> edge that made it true)."""
        fact = {n: False for n in self.nodes}
        wit = {}
        for n in init_true:
            fact[n] = True
        changed = True
        while changed:
            changed = False
            for e in self.edges():
                v = fact[e.src]
                v = transfer(v, e.names(), gen, kill)
                if e.dst is not None and v and not fact[e.dst]:
                    fact[e.dst] = True
                    wit[e.dst] = e
                    changed = True
        return fact, wit


def transfer(v, names, gen, kill):
    for a in names:
        if a in gen:
            v = True
        elif a in kill:
            v = False
    return v
