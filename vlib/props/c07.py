"""C07 Rewrite operations — API -> mutation mapping."""
import re
from ..mirlib import load, callee_key
from ..smimpl import index
from ..astlib import walk, walk_path, enclosing_ifs
from ..facts import EngineError
from . import shared_mir as sm

TOKEN_API = {
    "before": ("content_before", "push_back"), "streaming_before": ("content_before", "push_back"),
    "after": ("content_after", "push_front"), "streaming_after": ("content_after", "push_front"),
    "replace": (None, "replace"), "streaming_replace": (None, "replace"),
    "remove": (None, "remove"),
}


def chain(n):
    """flatten a receiver chain a.b().c.d(x) -> ['a','b()','c','d()'] (method names get '()')"""
    out = []
    while True:
        k = n.get("k")
        if k == "MethodCall":
            out.append(n["method"] + "()")
            n = n["recv"]
        elif k == "Field":
            out.append(n["member"])
            n = n["base"]
        elif k == "Path":
            out.append(n["path"])
            break
        elif k in ("Ref", "Unary"):
            n = n["e"]
        elif k == "Block" and len(n["body"]) == 1 and n["body"][0].get("k") == "ExprStmt":
            n = n["body"][0]["e"]
        elif k == "If":
            # `if c { &mut a } else { &mut b }.push_front(x)`
            out.append("<if>")
            break
        else:
            out.append("<" + str(k) + ">")
            break
    return list(reversed(out))


def mutation_effects(fnnode):
    """[(target chain string, op, chunk ctor)] for calls that edit a MutationsInner"""
    out = []
    for n in walk(fnnode["body"]):
        if n.get("k") == "MethodCall" and n["method"] in ("push_back", "push_front", "replace", "remove", "clear"):
            ch = chain(n["recv"])
            s = ".".join(ch)
            if "mutate()" in s or "end_tag_mutations_mut()" in s or "mutations" in s or ch[-1] == "<if>":
                ctor = None
                for a in n["args"]:
                    for m in walk(a):
                        if m.get("k") == "Call" and m["func"].get("k") == "Path" and m["func"]["path"].startswith("StringChunk::"):
                            ctor = m["func"]["path"]
                out.append((s, n["method"], ctor, n))
    return out


def run(ctx):
    mir = load()
    idx = index()

    # ------------------------------------------------------------------ R07.1
    r = ctx.rule("R07.1", "token mutation API: for StartTag, EndTag, Comment and TextChunk, before appends to content_before, after prepends to content_after, replace/remove set the removal state; streaming twins differ only in the chunk constructor", "E-AST sibling cross-check", floor=28)
    for owner in ("StartTag", "EndTag", "Comment", "TextChunk"):
        for m, (fld, op) in TOKEN_API.items():
            fs = idx.find(m, owner=owner)
            fs = [f for f in fs if f.trait is None]
            key = f"{owner}::{m}"
            if len(fs) != 1:
                r.inst(key)
                r.violate(key, f"{key} not found", None)
                continue
            eff = mutation_effects(fs[0].node)
            r.inst(key, sample={"method": key, "effects": [(e[0], e[1], e[2]) for e in eff]})
            if len(eff) != 1:
                r.violate(key, f"{key} performs {[(e[0], e[1]) for e in eff]}; expected exactly one edit of the token's mutations", None)
                continue
            tgt, gop, ctor, node = eff[0]
            want_tgt = "self.mutations.mutate()" + ("." + fld if fld else "")
            if tgt != want_tgt or gop != op:
                r.violate(key, f"{key} does `{tgt}.{gop}`; documented behaviour is `{want_tgt}.{op}` ({'appends after earlier insertions' if op == 'push_back' else 'prepends before earlier insertions' if op == 'push_front' else op})", None)
            if m != "remove":
                want_ctor = "StringChunk::stream" if m.startswith("streaming_") else "StringChunk::from_str"
                if ctor != want_ctor:
                    r.violate(key + "|chunk", f"{key} builds its chunk with {ctor}, expected {want_ctor}", None)
                elif want_ctor == "StringChunk::from_str":
                    # content and content_type are forwarded in this order
                    call = [x for x in walk(node) if x.get("k") == "Call" and x["func"].get("path") == "StringChunk::from_str"][0]
                    args = [a.get("s") for a in call["args"]]
                    if args != ["content", "content_type"]:
                        r.violate(key + "|args", f"{key} passes {args} to StringChunk::from_str", None)
    f = idx.one("remove", owner="Doctype")
    eff = [n for n in walk(f.node["body"]) if n.get("k") == "Assign" and "removed" in (n["left"].get("s") or "") and n["right"].get("s") == "true"]
    r.inst("Doctype::remove")
    if len(eff) != 1:
        r.violate("Doctype::remove", "Doctype::remove no longer sets its removed flag", None)

    rule_element_ops(ctx, idx)

    # ------------------------------------------------------------------ R07.3
    r = ctx.rule("R07.3", "serialisation order of a mutated token: content_before, then the token itself or (if removed) its replacement, then content_after; replace() removes the token and clears an earlier replacement", "E-AST", floor=5)
    sm.clause_finish_order(r, mir)
    for owner in ("StartTag", "EndTag", "Comment", "TextChunk"):
        fs = [f for f in idx.fns if f.name == "into_bytes" and f.owner == owner and f.trait == "Serialize"]
        key = owner + "::into_bytes"
        r.inst(key)
        if len(fs) != 1:
            r.violate(key, f"Serialize impl for {owner} not found", None)
            continue
        seq = []
        for n in walk(fs[0].node["body"]):
            if n.get("k") == "MethodCall" and n["method"] in ("encode", "serialize_self"):
                tgt = ".".join(chain(n["recv"]))
                seq.append((tgt.split(".")[-1] if n["method"] == "encode" else "self", n["method"]))
        want = [("self", "serialize_self"), ("content_before", "encode"), ("self", "serialize_self"), ("replacement", "encode"), ("content_after", "encode")]
        if seq != want:
            r.violate(key, f"{owner} serialises in the order {seq}; documented: unmodified -> self; else content_before, (self | replacement), content_after", None)
            continue
        # the self/replacement choice is on `!mutations.removed`
        conds = [(n["cond"].get("s") or "").replace(" ", "") for n in walk(fs[0].node["body"]) if n.get("k") == "If"]
        if "!mutations.removed" not in conds:
            r.violate(key + "|removed", f"{owner}: the choice between the token and its replacement is made on {conds}, expected !mutations.removed", None)
    f = idx.one("replace", owner="MutationsInner")
    seq = [(".".join(chain(n["recv"])), n["method"]) for n in walk(f.node["body"]) if n.get("k") == "MethodCall"]
    r.inst("MutationsInner::replace", sample={"calls": seq})
    if seq != [("self", "remove"), ("self.replacement", "clear"), ("self.replacement", "push_back")]:
        r.violate("MutationsInner::replace", f"MutationsInner::replace does {seq}; expected remove(), replacement.clear(), replacement.push_back(chunk)", None)

    rule_edits_not_lost(ctx, mir)

    # ------------------------------------------------------------------ R07.5
    r = ctx.rule("R07.5", "removed content: tokens are emitted only while emission is enabled; handle_tag recomputes emission from should_emit_content after every tag and re-enables it before an end tag that stops removal", "E-MIR", floor=3)
    for nm in ("DispatcherDelegate::token_produced", "DispatcherDelegate::text_token_produced"):
        f = mir.fn(nm)
        ib = [bi for bi, t in f.calls(r"into_bytes")]
        sw = [bi for bi, b in enumerate(f.blocks) if b["term"]["k"] == "switch" and f.describe_operand(b["term"]["d"]).endswith("emission_enabled")]
        r.inst(nm)
        ok = len(ib) == 1 and len(sw) == 1
        if ok:
            true_t = f.blocks[sw[0]]["term"]["else"]
            ok = f.dominates(true_t, ib[0])
        if not ok:
            r.violate(nm, f"{nm} serialises the token regardless of emission_enabled: content of a removed/replaced element would reappear", f.loc())
        ht = [bi for bi, t in f.calls(r"handle_token")]
        if not ht or (ib and not f.dominates(ht[0], ib[0])):
            r.violate(nm + "|handlers-first", f"{nm} serialises before the handlers ran", f.loc())
    ht = mir.fn("Dispatcher::handle_tag[LexemeSink]")
    ws = [(bi, ht.describe_operand(st["rv"]["o"]) if st["rv"]["k"] == "use" else st["rv"]["k"]) for f2, bi, st in mir.field_writes("DispatcherDelegate", "emission_enabled") if f2 is ht]
    tp = [bi for bi, t in ht.calls(r"try_produce_token_from_lexeme$")]
    r.inst("handle_tag|emission", sample={"writes": [d for _, d in ws]})
    after = [bi for bi, d in ws if "should_emit_content" in d and tp and ht.dominates(tp[0], bi)]
    before = [bi for bi, d in ws if d.startswith("const true") and tp and tp[0] in ht.reachable_blocks(bi) and not ht.dominates(tp[0], bi)]
    if not after:
        r.violate("handle_tag|recompute", "handle_tag does not recompute emission_enabled from should_emit_content() after the tag was produced", ht.loc())
    if not before:
        r.violate("handle_tag|re-enable", "handle_tag does not re-enable emission before the end tag that stops content removal (that end tag and what follows would be dropped)", ht.loc())
    else:
        sr = [bi for bi, t in ht.calls(r"should_stop_removing_element_content$")]
        if not sr or not all(ht.dominates(sr[0], b) for b in before):
            r.violate("handle_tag|re-enable-guard", "emission is re-enabled without asking should_stop_removing_element_content()", ht.loc())

    clause_vm_told_before_reenable(r, mir)

    # ------------------------------------------------------------------ R07.6 (shared with C16 R16.2)
    # set_attribute replaces the existing attribute whatever its spelling in the source; remove_attribute removes all duplicates
    from .c16 import rule_attr_lookup
    rule_attr_lookup(ctx, mir, rid="R07.6")

    # ------------------------------------------------------------------ R07.7 (shared with C03 R03.7)
    # content operations are no-ops exactly on elements without content: a self-closing foreign element must stay one
    from .c03 import rule_self_closing_ns
    rule_self_closing_ns(ctx, mir, rid="R07.7")

    # ------------------------------------------------------------------ R07.8 (shared with C16 R16.1)
    # a modified start tag is re-serialised from the parsed attribute list: every attribute the tokenizer saw must be in it
    from .c16 import rule_attr_typestate
    from ..smgraph import Graph as _G7, automaton as _a7
    from ..smimpl import index as _i7
    _aut7 = _a7()
    rule_attr_typestate(ctx, _i7(), _aut7, _G7(_aut7), mir, rid="R07.8")

    # ------------------------------------------------------------------ R07.9 (= R05.1)
    from .c05 import rule_activation_balance
    rule_activation_balance(ctx, idx, mir, rid="R07.9")

    # ------------------------------------------------------------------ R07.10 (generic, scoped to this property's anchors)
    sm.rule_named_plumbing(ctx, mir, "C07", "R07.10", floor=87)

    # ------------------------------------------------------------------ R07.11 (= R13.4)
    # a no-op or insert-only text handler must not change other bytes: text is decoded without BOM handling
    from .c13 import rule_no_bom_sniffing
    rule_no_bom_sniffing(ctx, mir, rid="R07.11")

    ctx.not_decided += ["that the composition of arbitrary operation scripts equals the reference edit (run-time)"]
    return ("API-to-mutation mapping read from the expanded syntax tree (28 token methods cross-checked as siblings and against the documented table, "
            "9 Element operations), serialisation order of mutated tokens, transfer of element-level end-tag edits, and the emission gate for removed content.")


def clause_raw_emission_gated(r, mir):
    """raw (uncaptured) input reaches the sink only while emission is enabled: the sink calls of
    emit_chunk_before_lexeme and flush_remaining_input are control-dependent on self.emission_enabled"""
    from ..mirlib import guarding_branches
    for nm in ("DispatcherDelegate::emit_chunk_before_lexeme", "DispatcherDelegate::flush_remaining_input"):
        f = mir.fn(nm)
        calls = [bi for bi, t in f.calls(r"handle_chunk$")]
        key = nm + "|gated"
        r.inst(key, sample={"sink_calls": len(calls)})
        if not calls or not all(any(f.deep(f.blocks[sb]["term"]["d"]).endswith("emission_enabled") for sb in guarding_branches(f, bi)) for bi in calls):
            r.violate(key, f"{nm} hands raw input to the sink without testing emission_enabled: the uncaptured bytes in front of every token inside a removed / replaced element leak into the output whenever some handler (any observer) makes the parser produce tokens there", f.loc())


def clause_vm_told_before_reenable(r, mir):
    """handle_tag: the selector VM must have seen this end tag (through the scanner's hint, or through
    adjust_capture_flags_for_tag_lexeme in lexing mode) before the dispatcher asks whether content removal stops
    here — otherwise the answer depends on whether an observer keeps the parser in lexing mode."""
    ht = mir.fn("Dispatcher::handle_tag[LexemeSink]")
    sr = [bi for bi, t in ht.calls(r"should_stop_removing_element_content$")]
    told = set(bi for bi, t in ht.calls(r"adjust_capture_flags_for_tag_lexeme$"))
    told |= set(bi for f2, bi, st in mir.field_writes("Dispatcher", "got_flags_from_hint") if f2 is ht)
    r.inst("handle_tag|vm-told-before-stop-test", sample={"told_blocks": len(told), "stop_tests": len(sr)})
    if not sr or not told or any(ht.can_reach_without(0, {b}, told) for b in sr):
        r.violate("handle_tag|vm-told-before-stop-test", "Dispatcher::handle_tag asks should_stop_removing_element_content() before the selector VM was told about the tag (adjust_capture_flags_for_tag_lexeme / the hint flag): in lexing mode the element is still open at that point, emission is not re-enabled for its end tag, and removed content or the end tag leak or vanish depending on which observers are registered", ht.loc())


def rule_edits_not_lost(ctx, mir, rid="R07.4"):
    # ------------------------------------------------------------------ R07.4
    r = ctx.rule(rid, "edits are not lost: write-implies-invalidate (C01 R01.5), removal of an attribute removes every duplicate (C16 R16.2), the element's own end-tag edits are applied before user end-tag handlers run", "E-MIR", floor=3)
    sm.clause_eq_case_insensitive(r, mir)
    if rid == "R07.4":
        # a rejected edit must leave the raw bytes in place (C08 R08.6 carries the same clause itself)
        from .c08 import clause_raw_invalidated_after_success
        clause_raw_invalidated_after_success(r, mir)
    ra = mir.fn("Attributes::remove_attribute")
    bulk = [callee_key(t) for bi, t in ra.calls(r"retain|extract_if")]
    single = [bi for bi, t in ra.calls(r"Vec::remove$|swap_remove$")]
    in_loop = [bi for bi in single if any(bi in ra.reachable_blocks(s) for s in ra.succs()[bi])]
    r.inst("remove_attribute|all-duplicates", sample={"bulk": bulk, "single": len(single)})
    if not bulk and (not single or len(in_loop) != len(single)):
        r.violate("remove_attribute|all-duplicates", "remove_attribute removes at most one matching attribute: a duplicate of the removed name survives in the output", ra.loc())
    sa = mir.fn("Attributes::set_attribute")
    r.inst("set_attribute|keeps-others")
    if list(sa.calls(r"Vec::clear$|Vec::truncate$|retain")):
        r.violate("set_attribute|keeps-others", "set_attribute drops other attributes of the tag", sa.loc())
    ie = mir.fn("Element::into_end_tag_handler")
    ins = list(ie.calls(r"Vec::insert$"))
    psh = list(ie.calls(r"Vec::push$"))
    r.inst("into_end_tag_handler|internal-first", sample={"insert": [ie.describe_operand(t["args"][1]) for bi, t in ins], "push": len(psh)})
    if len(ins) != 1 or not ie.describe_operand(ins[0][1]["args"][1]).startswith("const 0") or psh:
        r.violate("into_end_tag_handler|internal-first", "the internal handler that transfers the element's end-tag edits (append/after/remove/rename) is no longer placed first: it assigns the end tag's mutations wholesale and would overwrite what user end-tag handlers did", ie.loc())
    cl = [g for g in mir.fns if g.key.startswith("Element::into_end_tag_handler::{closure")]
    w = [g for g in cl if "EndTag.mutations" in sm.fields_written(g)]
    c2 = [g for g in cl if list(g.calls(r"EndTag::set_name_raw$"))]
    r.inst("into_end_tag_handler|transfers")
    if not w or not c2:
        r.violate("into_end_tag_handler|transfers", "into_end_tag_handler no longer transfers both the modified end tag name and the end-tag mutations", ie.loc())


def rule_element_ops(ctx, idx, rid="R07.2"):
    # ------------------------------------------------------------------ R07.2
    r = ctx.rule(rid, "Element operations edit the documented place: prepend -> after the start tag (front), append -> before the end tag (back), after -> after the end tag or, for void elements, after the start tag (front), set_inner_content/replace/remove/remove_and_keep_content as documented; content operations are no-ops on elements that cannot have content", "E-AST", floor=9)
    from .c04 import clause_stack_directive
    clause_stack_directive(r, idx)
    from .c16 import clause_void_list
    clause_void_list(r, idx)
    def one(name):
        return idx.one(name, owner="Element")
    def effs(name):
        return [(e[0], e[1]) for e in mutation_effects(one(name).node)]
    def guarded_by_can_have_content(name, node_filter):
        f = one(name)
        res = []
        for n, p in walk_path(f.node["body"]):
            if node_filter(n):
                res.append(any(br == "then" and (i["cond"].get("s") or "").replace(" ", "") == "self.can_have_content" for i, br in enclosing_ifs(p)))
        return res
    is_edit = lambda n: n.get("k") == "MethodCall" and n["method"] in ("push_back", "push_front", "replace", "remove", "clear", "remove_content")
    table = {
        "prepend_chunk": [("self.start_tag.mutations.mutate().content_after", "push_front")],
        "append_chunk": [("self.end_tag_mutations_mut().content_before", "push_back")],
        "set_inner_content_chunk": [("self.start_tag.mutations.mutate().content_after", "push_front")],
    }
    for name, want in table.items():
        got = effs(name)
        r.inst("Element::" + name, sample={"effects": got})
        if got != want:
            r.violate("Element::" + name, f"Element::{name} edits {got}, documented: {want}", None)
        g = guarded_by_can_have_content(name, is_edit)
        if not g or not all(g):
            r.violate("Element::" + name + "|void", f"Element::{name} is not a no-op for elements that cannot have content", None)
    # set_inner_content also removes the existing content first
    sic = one("set_inner_content_chunk")
    calls = [n["method"] for n in walk(sic.node["body"]) if n.get("k") == "MethodCall" and n["recv"].get("s") == "self"]
    r.inst("Element::set_inner_content|removes-content", sample={"self_calls": calls})
    if "remove_content" not in calls:
        r.violate("Element::set_inner_content|removes-content", "set_inner_content no longer removes the element's existing content", None)
    # after: if can_have_content -> end tag content_after else start tag content_after, push_front
    ac = one("after_chunk")
    ok = False
    for n in walk(ac.node["body"]):
        if n.get("k") == "MethodCall" and n["method"] == "push_front" and n["recv"].get("k") == "If":
            i = n["recv"]
            c = (i["cond"].get("s") or "").replace(" ", "")
            t = "".join((x.get("e", {}).get("s") or "") for x in i["then"]).replace(" ", "")
            e = "".join((x.get("e", {}).get("s") or "") for x in i["else"]["body"]).replace(" ", "") if i.get("else") else ""
            ok = c == "self.can_have_content" and t == "&mutself.end_tag_mutations_mut().content_after" and e == "&mutself.start_tag.mutations.mutate().content_after"
    r.inst("Element::after_chunk")
    if not ok:
        r.violate("Element::after_chunk", "Element::after no longer prepends to the end tag's content_after (or to the start tag's for elements without content)", None)
    bf = effs("before")
    r.inst("Element::before", sample={"effects": bf})
    if bf != [("self.start_tag.mutations.mutate().content_before", "push_back")]:
        r.violate("Element::before", f"Element::before edits {bf}", None)
    for name, want_start, need_rc in (("replace_chunk", "replace", True), ("remove", "remove", True), ("remove_and_keep_content", "remove", False)):
        f = one(name)
        src = [(".".join(chain(n["recv"])), n["method"]) for n in walk(f.node["body"]) if n.get("k") == "MethodCall" and n["method"] in ("replace", "remove", "remove_content")]
        r.inst("Element::" + name, sample={"calls": src})
        start_ok = any(m == want_start and (t.startswith("self.start_tag")) for t, m in src)
        end_ok = ("self.end_tag_mutations_mut()", "remove") in src
        rc = ("self", "remove_content") in src
        if not start_ok or not end_ok or rc != need_rc:
            r.violate("Element::" + name, f"Element::{name} performs {src}; documented: start tag {want_start}, end tag removed, content {'removed' if need_rc else 'kept'}", None)
        g = guarded_by_can_have_content(name, lambda n: n.get("k") == "MethodCall" and n["method"] in ("remove", "remove_content") and "end_tag_mutations_mut" in ".".join(chain(n["recv"])) or (n.get("k") == "MethodCall" and n["method"] == "remove_content"))
        if not g or not all(g):
            r.violate("Element::" + name + "|void", f"Element::{name}: end-tag/content edits are not restricted to elements that can have content", None)
    stn = one("set_tag_name")
    w = [(n["left"].get("s") or "").replace(" ", "") for n in walk(stn.node["body"]) if n.get("k") == "Assign"]
    c = [n["method"] for n in walk(stn.node["body"]) if n.get("k") == "MethodCall" and (n["recv"].get("s") or "").replace(" ", "") == "self.start_tag"]
    r.inst("Element::set_tag_name", sample={"assigns": w, "start_tag_calls": c})
    g = guarded_by_can_have_content("set_tag_name", lambda n: n.get("k") == "Assign" and "modified_end_tag_name" in (n["left"].get("s") or ""))
    if w != ["self.modified_end_tag_name"] or c != ["set_name_raw"] or not g or not all(g):
        r.violate("Element::set_tag_name", "set_tag_name must rename the start tag and (iff the element can have content) record the name for its end tag", None)
