"""C01 Pass-through identity — structural tiling / raw-serialisation rules."""
import re
from ..mirlib import load, callee_key, short_ty
from ..smgraph import Graph, automaton
from ..sm import NONE, fmt_mask
from ..facts import EngineError
from . import shared, shared_mir as sm

EOF_EMITS = {"emit_text_and_eof", "emit_current_token_and_eof", "emit_raw_without_token_and_eof"}


def flows_from(f, op, pred, depth=0):
    """does operand `op` (through copies of single-definition locals, named or not) come from a place satisfying pred?"""
    if depth > 10 or op["k"] not in ("copy", "move"):
        return False
    if pred(op["p"]):
        return True
    if op["p"]["proj"]:
        return False
    ds = f.defs_of(op["p"]["local"])
    for kind, bi, x in ds:
        if kind == "assign" and x["rv"]["k"] in ("use", "cast"):
            if flows_from(f, x["rv"]["o"], pred, depth + 1):
                return True
    return False


def run(ctx):
    mir = load()
    aut = automaton()
    g = Graph(aut)

    # ------------------------------------------------------------------ R01.1
    r = ctx.rule("R01.1", "lexer tiling by construction: every lexeme starts at lexeme_start; lexeme_start is only set to the end of the lexeme just emitted, to 0 when the consumed prefix is dropped, or to a bookmark position; consumed count == lexeme_start", "E-MIR", floor=8)
    ctors = [(f, bi, t) for f, bi, t in mir.callers_of(r"Lexeme::new$") if not mir.is_test_fn(f)]
    r.count("Lexeme::new call sites", len(ctors))
    for f, bi, t in ctors:
        key = f"{f.key}|Lexeme::new"
        d = f.describe_operand(t["args"][3])
        r.inst(key, sample={"in": f.key, "raw_range": d})
        if f.key != "Lexer::create_lexeme_with_raw":
            r.violate(key, f"{f.key} constructs a Lexeme outside Lexer::create_lexeme_with_raw (its start would not be tied to lexeme_start)", f.loc())
        elif not re.match(r"^(base::range::)?Range\{self\.lexeme_start, raw_end\}$", d):
            r.violate(key, f"lexeme raw range is `{d}`, expected Range{{start: self.lexeme_start, end: raw_end}} (lexemes would overlap or leave gaps)", f.loc())
    for nm, want in (("Lexer::create_lexeme_with_raw_inclusive", "inclusive"), ("Lexer::create_lexeme_with_raw_exclusive", "exclusive")):
        f = mir.fn(nm)
        cs = list(f.calls(r"Lexer::create_lexeme_with_raw$"))
        key = nm + "|raw_end"
        if len(cs) != 1:
            r.inst(key)
            r.violate(key, f"{nm} does not delegate to create_lexeme_with_raw exactly once", f.loc())
            continue
        d = f.describe_operand(cs[0][1]["args"][4])
        r.inst(key, sample={"fn": nm, "raw_end": d})
        # raw_end = pos() (+ 1 for inclusive); pos() is a StateMachine method on self
        ok_excl = re.match(r"^(raw_end|Lexer::pos\[StateMachine\]\(self\))$", d) is not None
        # examine the definition of raw_end
        loc = cs[0][1]["args"][4]["p"]["local"]
        dd = f.defs_of(loc)
        shape = None
        if len(dd) == 1:
            kind, bi, x = dd[0]
            if kind == "call" and callee_key(x).startswith("Lexer::pos"):
                shape = "exclusive"
            elif kind == "assign" and x["rv"]["k"] in ("use",):
                # raw_end = move _tmp where _tmp = Add(pos, 1) checked
                src = x["rv"]["o"]
                shape = _addone_shape(f, src)
            elif kind == "assign" and x["rv"]["k"] == "bin":
                shape = _addone_shape_rv(f, x["rv"])
        if shape != want:
            r.violate(key, f"{nm}: raw_end is computed as {shape or d}, expected {'pos() + 1' if want == 'inclusive' else 'pos()'}", f.loc())
    writes = [(f, bi, st) for f, bi, st in mir.field_writes("Lexer", "lexeme_start") if not mir.is_test_fn(f)]
    allowed = {
        "Lexer::emit_lexeme": r"^Range::end\(Lexeme::raw_range\(lexeme\)\)$|^Lexeme::raw_range\(lexeme\)\.end$",
        "Lexer::emit_tag_lexeme": r"^Range::end\(Lexeme::raw_range\(lexeme\)\)$|^Lexeme::raw_range\(lexeme\)\.end$",
        "Lexer::adjust_for_next_input[StateMachine]": r"^const 0_usize",
        "Lexer::adjust_to_bookmark[StateMachine]": r"^pos$",
    }
    for f, bi, st in writes:
        v = f.describe_operand(st["rv"]["o"]) if st["rv"]["k"] == "use" else st["rv"]["k"]
        key = f"{f.key}|lexeme_start="
        r.inst(key, sample={"in": f.key, "value": v})
        pat = allowed.get(f.key)
        if pat is None:
            r.violate(key, f"{f.key} assigns Lexer.lexeme_start = {v}; only emit_lexeme/emit_tag_lexeme (end of the emitted lexeme), adjust_for_next_input (0) and adjust_to_bookmark may move it", f.loc())
        elif not re.search(pat, v):
            r.violate(key, f"{f.key} assigns Lexer.lexeme_start = {v} (expected {pat})", f.loc())
    seen = set(f.key for f, _, _ in writes)
    for k in allowed:
        if k not in seen:
            r.violate(k + "|missing", f"{k} no longer updates lexeme_start", None)
    lx = mir.fn("Lexer::get_consumed_byte_count[StateMachine]")
    rets = [st for b in lx.blocks for st in b["stmts"] if st["k"] == "assign" and st["p"]["local"] == 0]
    r.inst("Lexer::get_consumed_byte_count")
    if len(rets) != 1 or rets[0]["rv"]["k"] != "use" or lx.describe_operand(rets[0]["rv"]["o"]) != "self.lexeme_start":
        r.violate("Lexer::get_consumed_byte_count", "Lexer::get_consumed_byte_count does not return exactly lexeme_start (bytes before an unfinished lexeme would be kept or dropped)", lx.loc())

    # ------------------------------------------------------------------ R01.2
    r = ctx.rule("R01.2", "every byte is flushed at the end: in every state the end-of-input leaf performs an *_and_eof emission or reconsumes into a state for which this holds", "E-SM", floor=65)
    ok = {}
    def eof_edges(n):
        return [e for e in g.out[n] if e.leaf is None or (e.c0 & (1 << NONE) and (e.leaf["last"] is True or e.leaf["last"] is None))]
    changed = True
    status = {n: None for n in g.nodes}
    for _ in range(len(g.nodes) + 2):
        for n in g.nodes:
            es = eof_edges(n)
            res = True
            if not es:
                res = False
            for e in es:
                nm = set(e.names())
                if nm & EOF_EMITS and e.kind == "break":
                    continue
                if e.kind in ("goto", "enter") and e.consumed == 0 and status.get(e.dst) is True:
                    continue
                if e.kind in ("goto", "enter") and e.consumed == 0 and status.get(e.dst) is None:
                    res = None if res else res
                    continue
                res = False
            status[n] = res
    for n in g.nodes:
        r.inst(n, sample={"state": n, "eof_edges": [e.describe() for e in eof_edges(n)][:2]})
        if status[n] is not True:
            bad = [e.describe() for e in eof_edges(n) if not (set(e.names()) & EOF_EMITS)]
            r.violate(n, f"at end of input state {n} does not emit what is pending (no *_and_eof emission on: {bad[:2]}): trailing bytes would be lost", shared.state_loc(n))
    # *_and_eof implementations emit the pending lexeme then EOF
    for nm in sorted(EOF_EMITS):
        f = mir.fn(f"Lexer::{nm}[StateMachineActions]")
        cs = [callee_key(t) for bi, t in f.calls(r"Lexer::")]
        r.inst("impl:" + nm, sample={"action": nm, "calls": cs})
        if "Lexer::emit_eof" not in cs or not any(c in ("Lexer::emit_lexeme", "Lexer::emit_text[StateMachineActions]") for c in cs):
            r.violate("impl:" + nm, f"Lexer::{nm} no longer emits the pending lexeme followed by EOF (calls: {cs})", f.loc())

    # ------------------------------------------------------------------ R01.3
    r = ctx.rule("R01.3", "gap emission / commit order in the dispatcher: emit_chunk_before_lexeme, then the token, then consume_lexeme", "E-MIR", floor=2)
    sm.check_commit_order(mir, r)
    ecb = mir.fn("DispatcherDelegate::emit_chunk_before_lexeme")
    wr = [(bi, st) for f, bi, st in mir.field_writes("DispatcherDelegate", "remaining_content_start") if f is ecb]
    r.inst("emit_chunk_before_lexeme|range")
    aggs = [ecb.describe_operand({"k": "copy", "p": st["p"]}) for b in ecb.blocks for st in b["stmts"] if st["k"] == "assign" and st["rv"]["k"] == "agg" and st["rv"]["name"].endswith("Range")]
    rng = [st for b in ecb.blocks for st in b["stmts"] if st["k"] == "assign" and st["rv"]["k"] == "agg" and st["rv"]["name"].endswith("Range")]
    if len(rng) != 1 or [ecb.describe_operand(o) for o in rng[0]["rv"]["ops"]] != ["self.remaining_content_start", "lexeme_range.start"]:
        r.violate("emit_chunk_before_lexeme|range", "emit_chunk_before_lexeme no longer emits exactly [remaining_content_start, lexeme.start)", ecb.loc())
    if len(wr) != 1 or ecb.describe_operand(wr[0][1]["rv"]["o"]) != "lexeme_range.start":
        r.violate("emit_chunk_before_lexeme|advance", "emit_chunk_before_lexeme does not advance remaining_content_start to the lexeme start", ecb.loc())
    cl = mir.fn("DispatcherDelegate::consume_lexeme")
    wr = [(bi, st) for f, bi, st in mir.field_writes("DispatcherDelegate", "remaining_content_start") if f is cl]
    r.inst("consume_lexeme|advance")
    if len(wr) != 1 or not re.search(r"raw_range\(lexeme\)\.end$|Range::end", cl.describe_operand(wr[0][1]["rv"]["o"])):
        r.violate("consume_lexeme|advance", "consume_lexeme does not advance remaining_content_start to the lexeme end", cl.loc())
    fri = mir.fn("DispatcherDelegate::flush_remaining_input")
    r.inst("flush_remaining_input|range")
    rng = [st for b in fri.blocks for st in b["stmts"] if st["k"] == "assign" and st["rv"]["k"] == "agg" and st["rv"]["name"].endswith("ops::Range")]
    if len(rng) != 1 or [fri.describe_operand(o) for o in rng[0]["rv"]["ops"]] != ["self.remaining_content_start", "consumed_byte_count"]:
        r.violate("flush_remaining_input|range", "flush_remaining_input no longer emits exactly input[remaining_content_start..consumed_byte_count]", fri.loc())

    # ------------------------------------------------------------------ R01.4
    r = ctx.rule("R01.4", "flush after every successful parse: write() flushes (chunk, consumed) before touching the buffer; end() hands the whole chunk to finish, which flushes (input, input.len()) first", "E-MIR", floor=4)
    sm.clause_finish_order(r, mir)
    w = mir.fn("TransformStream::write")
    parse = list(w.calls(r"Parser::parse$"))
    flush = list(w.calls(r"Dispatcher::flush_remaining_input$"))
    r.inst("write|flush", sample={"parse_calls": len(parse), "flush_calls": len(flush)})
    if len(parse) != 1 or len(flush) != 1:
        r.violate("write|flush", "TransformStream::write: expected exactly one Parser::parse and one flush_remaining_input", w.loc())
    else:
        pbi, pt = parse[0]
        fbi, ft = flush[0]
        if not w.dominates(pbi, fbi):
            r.violate("write|flush-after-parse", "flush_remaining_input is not dominated by Parser::parse", w.loc())
        # every Ok return is dominated by the flush
        errs = set(w.err_return_blocks())
        ok_rets = [bi for bi, b in enumerate(w.blocks) for st in b["stmts"] if st["k"] == "assign" and st["p"]["local"] == 0 and st["rv"]["k"] == "agg" and st["rv"]["name"].endswith("Result::Ok")]
        r.inst("write|ok-returns", sample={"ok_returns": len(ok_rets)})
        for o in ok_rets:
            if not w.dominates(fbi, o):
                r.violate("write|ok-without-flush", "TransformStream::write can return Ok(()) without flush_remaining_input (consumed bytes never reach the sink)", w.loc())
        for bi, t in w.calls(r"Arena::(shift|init_with)$"):
            r.inst("write|buffer:" + callee_key(t))
            if not w.dominates(fbi, bi):
                r.violate("write|buffer-before-flush:" + callee_key(t), f"{callee_key(t)} can run before flush_remaining_input: the chunk being flushed aliases the buffer", w.loc())
        a = [w.describe_operand(x) for x in ft["args"]]
        pa = [w.describe_operand(x) for x in pt["args"]]
        r.inst("write|flush-args", sample={"flush": a[1:], "parse": pa[1:]})
        if a[1] != pa[1]:
            r.violate("write|flush-chunk", f"flush_remaining_input flushes `{a[1]}` but `{pa[1]}` was parsed", w.loc())
        dest = pt["dest"]["local"]
        def is_ok_payload(p):
            pj = p["proj"]
            return p["local"] == dest and len(pj) == 2 and isinstance(pj[0], dict) and pj[0].get("variant") == "Ok" and isinstance(pj[1], dict) and pj[1].get("f") == "0"
        if not flows_from(w, ft["args"][2], is_ok_payload):
            r.violate("write|flush-count", f"flush_remaining_input is given `{a[2]}` which is not the consumed byte count returned by Parser::parse", w.loc())
        # the same count decides what is kept
        for bi, t in w.calls(r"Arena::shift$"):
            if not flows_from(w, t["args"][1], is_ok_payload):
                r.violate("write|shift-count", "Arena::shift is not given the consumed byte count returned by Parser::parse", w.loc())
    e = mir.fn("TransformStream::end")
    parse = list(e.calls(r"Parser::parse$"))
    fin = list(e.calls(r"Dispatcher::finish$"))
    r.inst("end|finish", sample={"parse_calls": len(parse), "finish_calls": len(fin)})
    if len(parse) != 1 or len(fin) != 1:
        r.violate("end|finish", "TransformStream::end: expected one Parser::parse(chunk, true) and one Dispatcher::finish", e.loc())
    else:
        pa = [e.describe_operand(x) for x in parse[0][1]["args"]]
        fa = [e.describe_operand(x) for x in fin[0][1]["args"]]
        if not pa[2].startswith("const true"):
            r.violate("end|last", "TransformStream::end does not parse with last = true", e.loc())
        if fa[1] != pa[1]:
            r.violate("end|finish-chunk", f"end() parses `{pa[1]}` but finishes with `{fa[1]}`: bytes the tag scanner did not consume at end of input would be dropped", e.loc())
        if list(e.calls(r"flush_remaining_input$")):
            r.violate("end|partial-flush", "end() flushes a consumed prefix itself; at end of input everything must be flushed by finish()", e.loc())
    dfin = mir.fn("Dispatcher::finish")
    cs = list(dfin.calls(r"DispatcherDelegate::finish$"))
    r.inst("Dispatcher::finish|delegates")
    if len(cs) != 1 or dfin.describe_operand(cs[0][1]["args"][2]) != "input":
        r.violate("Dispatcher::finish|delegates", "Dispatcher::finish does not pass its input to DispatcherDelegate::finish", dfin.loc())

    # ------------------------------------------------------------------ R01.5
    r = ctx.rule("R01.5", "unmodified tokens serialise as their raw bytes and only mutators invalidate raw: serialize_self emits raw.original() alone when present; every write of a serialised field is followed by raw.set_modified()", "E-MIR", floor=8)
    for owner in ("StartTag", "EndTag", "Comment"):
        f = mir.fn(f"{owner}::serialize_self")
        org = list(f.calls(r"Spanned::original$"))
        key = f"{owner}::serialize_self|raw-first"
        r.inst(key)
        if len(org) != 1:
            r.violate(key, f"{owner}::serialize_self does not consult raw.original()", f.loc())
            continue
        obi, ot = org[0]
        outs = [bi for bi, t in f.calls(r"call_mut$|Serialize|escape_double_quotes_only")]
        if not all(f.dominates(obi, b) for b in outs):
            r.violate(key, f"{owner}::serialize_self emits something before checking raw.original()", f.loc())
        # Some branch: exactly one output call with the payload, then return
        sw = f.blocks[ot["t"]]["term"] if ot["t"] >= 0 else None
        some_t = None
        if sw and sw["k"] == "switch":
            for v, tgt in sw["ts"]:
                if v == 1:
                    some_t = tgt
            if some_t is None and len(sw["ts"]) == 1 and sw["ts"][0][0] == 0:
                some_t = sw["else"]
        if some_t is None:
            r.violate(key, f"{owner}::serialize_self: cannot find the Some(raw) branch", f.loc())
            continue
        none_t = [x for x in f.succs()[ot["t"]] if x != some_t]
        region = f.reachable_blocks(some_t) - (f.reachable_blocks(none_t[0]) if none_t else set())
        calls_in = [(bi, f.describe_operand(t["args"][1])) for bi, t in f.calls(r"call_mut$") if bi in region]
        if len(calls_in) != 1 or "raw" not in calls_in[0][1]:
            r.violate(key, f"{owner}::serialize_self: with an unmodified raw the output is {calls_in} instead of the raw bytes alone", f.loc())
    # Doctype is always raw
    f = mir.fn("Doctype::into_bytes[Serialize]")
    outs = [f.describe_operand(t["args"][1]) for bi, t in f.calls(r"call_mut$")]
    r.inst("Doctype::into_bytes|raw", sample={"outputs": outs})
    if len(outs) != 1 or "self.raw" not in outs[0]:
        r.violate("Doctype::into_bytes|raw", f"Doctype serialises {outs} instead of its raw bytes", f.loc())
    # write-implies-invalidate
    serialised = {"StartTag": ["name"], "EndTag": ["name"], "Comment": ["text"]}
    EXC = {("StartTag::set_self_closing_syntax", "self_closing"): "`/` is inert in HTML; only Element::set_tag_name-related callers, guarded by can_have_content"}
    n_w = 0
    for owner, flds in serialised.items():
        for fld in flds:
            for f, bi, st in mir.field_writes(owner, fld):
                if mir.is_test_fn(f) or f.name in ("new_token", "new"):
                    continue
                n_w += 1
                key = f"{f.key}|{owner}.{fld}"
                r.inst(key, sample={"writer": f.key, "field": f"{owner}.{fld}"})
                sm_b = set(b for b, t in f.calls(r"Spanned::set_modified$"))
                rets = set(f.return_blocks())
                if not sm_b or f.can_reach_without(bi, rets, sm_b) and bi not in sm_b:
                    # allow set_modified in the same block before? order within block: calls are terminators, so a write in block bi precedes the call terminating bi
                    r.violate(key, f"{f.key} assigns {owner}.{fld} but can return without raw.set_modified(): the edit would be lost (raw bytes serialised) ", f.loc())
    st_mut = 0
    for f in mir.fns:
        if f.owner != "StartTag" or mir.is_test_fn(f):
            continue
        for bi, t in f.calls(r"Attributes::(set_attribute|remove_attribute)$"):
            st_mut += 1
            key = f"{f.key}|{callee_key(t)}"
            r.inst(key, sample={"writer": f.key, "mutates": callee_key(t)})
            sm_b = set(b for b, tt in f.calls(r"Spanned::set_modified$"))
            rets = set(f.return_blocks())
            errs = set(f.err_return_blocks())
            # paths that skip set_modified must go through the Err return (set_attribute?) or the `false` edge of the bool result (remove_attribute)
            skip_ok = set(errs)
            se = f.switch_edges(bi)
            if se:
                skip_ok.add(se[0])
            if not sm_b:
                r.violate(key, f"{f.key} edits the attribute list but never calls raw.set_modified(): the edit would not be serialised", f.loc())
            elif f.can_reach_without(t["t"], rets, sm_b | skip_ok):
                r.violate(key, f"{f.key} can return after a successful attribute edit without raw.set_modified()", f.loc())
    if n_w < 3 or st_mut < 2:
        raise EngineError(f"R01.5: only {n_w} serialised-field writers and {st_mut} attribute mutators found (anchors moved)")
    callers = sorted(set(f.key for f, bi, t in mir.callers_of(r"Spanned::set_modified$") if not mir.is_test_fn(f)))
    r.inst("set_modified|callers", sample={"callers": callers})
    r.analysed["set_modified_callers"] = callers
    # a method taking `&mut self` for reading (e.g. attribute materialisation) must not invalidate raw
    for c in callers:
        nm = c.split("::")[-1]
        if not re.match(r"^(set_|remove_)", nm):
            r.violate("set_modified|" + c, f"{c} invalidates the raw bytes of a token although it is not a set_*/remove_* mutator: an observed-only token would be re-serialised (quotes/spacing normalised)", None)

    # ------------------------------------------------------------------ R01.6 / R01.7 (shared)
    # the tag scanner's consumed count lags behind by a stale look-ahead mark (bytes re-fed / lost): C09 R09.3
    from .c09 import rule_seq_mark
    rule_seq_mark(ctx, aut, rid="R01.6")
    # captured text is re-encoded from its decoded form: a BOM-sniffing decoder drops or re-interprets bytes: C13 R13.4
    from .c13 import rule_no_bom_sniffing
    rule_no_bom_sniffing(ctx, mir, rid="R01.7")

    # ------------------------------------------------------------------ R01.8 (shared clauses)
    r = ctx.rule("R01.8", "nothing but the configuration decides how bytes are interpreted and whether a non-strict run can fail: the encoding is always ASCII-compatible (constructor discipline, C13 R13.1) and the ambiguity guard runs only under `strict` (C03 R03.3)", "E-MIR", floor=3)
    from .c13 import clause_ascii_compatible_ctor
    clause_ascii_compatible_ctor(r, mir)
    from .c03 import clause_strict_gates_guard
    clause_strict_gates_guard(r, mir)
    from . import shared_mir as _sm
    _sm.clause_rewrite_str_plumbing(r, mir)

    # ------------------------------------------------------------------ R01.9 (shared with C09 R09.4)
    # what the parser reports as consumed decides which bytes are re-fed with the next chunk
    from .c09 import rule_consumed_count
    from ..smimpl import index as _index
    rule_consumed_count(ctx, _index(), rid="R01.9")

    # ------------------------------------------------------------------ R01.10 (shared with C02 R02.6)
    from .c02 import rule_decoder_fast_path
    rule_decoder_fast_path(ctx, mir, rid="R01.10")

    # ------------------------------------------------------------------ R01.11 (= R15.4)
    from .c15 import rule_action_preconditions
    from ..smgraph import Graph as _G, automaton as _aut
    _a = _aut()
    rule_action_preconditions(ctx, _index(), _G(_a), _a, rid="R01.11")

    # ------------------------------------------------------------------ R01.12 (= R13.7)
    from .c13 import rule_meta_charset
    rule_meta_charset(ctx, mir, rid="R01.12")

    # ------------------------------------------------------------------ R01.13 (generic, scoped to this property's anchors)
    sm.rule_named_plumbing(ctx, mir, "C01", "R01.13", floor=96)

    # ------------------------------------------------------------------ R01.14 (= R05.1)
    # a capture flag that never clears makes all later text go through decode/encode although no handler sees it
    from .c05 import rule_activation_balance
    from ..smimpl import index as _index14
    rule_activation_balance(ctx, _index14(), mir, rid="R01.14")

    # ------------------------------------------------------------------ R01.15 (= R13.2)
    # text captured for handlers is re-encoded: the encoder must learn of a <meta> switch no matter which handlers exist
    from .c13 import rule_encoding_switch
    rule_encoding_switch(ctx, mir, rid="R01.15")

    ctx.not_decided += ["bytes of captured text surviving decode/encode (stated exception of the property)", "arithmetic of Arena::shift / init_with (memory module unit tests)"]
    return ("Structural conditions of 'lexemes and raw gaps tile every chunk exactly once': construction sites and the five writers of "
            "Lexer.lexeme_start, EOF leaves of all %d automaton states, commit order and flush ordering on every CFG path of the dispatcher / "
            "TransformStream::write/end, raw-first serialisation and write-implies-invalidate on the token types." % len(aut.states))


def _addone_shape_rv(f, rv):
    if rv["k"] == "bin" and rv["op"].startswith("Add"):
        a = f.describe_operand(rv["a"])
        b = f.describe_operand(rv["b"])
        if "Lexer::pos" in a and b.startswith("const 1_usize"):
            return "inclusive"
    return None


def _addone_shape(f, op, depth=0):
    """value == pos() + 1 (possibly through the overflow-checked tuple)"""
    if depth > 6 or op["k"] not in ("copy", "move"):
        return None
    p = op["p"]
    ds = f.defs_of(p["local"])
    if len(ds) != 1:
        return None
    kind, bi, x = ds[0]
    if kind == "call":
        return "exclusive" if callee_key(x).startswith("Lexer::pos") and not p["proj"] else None
    rv = x["rv"]
    if rv["k"] == "bin":
        return _addone_shape_rv(f, rv)
    if rv["k"] == "use":
        return _addone_shape(f, rv["o"], depth + 1)
    return None
