"""C11 Graceful bail-out — CFG path rules over TransformStream::write/end and the dispatcher."""
from ..mirlib import load, callee_key
from ..smimpl import index
from ..astlib import walk
from ..facts import EngineError
from . import shared_mir as sm


def run(ctx):
    mir = load()
    idx = index()
    write = mir.fn("TransformStream::write")
    end = mir.fn("TransformStream::end")

    r, sites = rule_bail_out_sites(ctx, mir)
    # the documented exception: the error of finish() in end()
    r2 = ctx.rule("R11.1x", "the only Err exit without a bail-out site is the tail call of Dispatcher::finish in end(), and finish flushes all input before handle_end", "E-MIR", floor=2)
    fin_calls = list(end.calls(r"Dispatcher::finish$"))
    r2.inst("end|finish-tail", sample={"finish_calls": len(fin_calls)})
    if len(fin_calls) != 1:
        r2.violate("end|finish-tail", "TransformStream::end does not end in exactly one Dispatcher::finish call", end.loc())
    else:
        bi, t = fin_calls[0]
        if t["dest"]["local"] != 0:
            r2.violate("end|finish-tail", "result of Dispatcher::finish is not returned directly by end()", end.loc())
    dfin = mir.fn("DispatcherDelegate::finish")
    fl = [bi for bi, t in dfin.calls(r"DispatcherDelegate::flush_remaining_input$")]
    he = [bi for bi, t in dfin.calls(r"handle_end")]
    r2.inst("finish|flush-before-handle_end")
    if len(fl) != 1 or not he or not all(dfin.dominates(fl[0], h) for h in he):
        r2.violate("finish|flush-before-handle_end", "DispatcherDelegate::finish no longer flushes the remaining input before calling handle_end (an end-handler error would lose bytes)", dfin.loc())
    else:
        t = dfin.blocks[fl[0]]["term"]
        a = [dfin.describe_operand(x) for x in t["args"]]
        if not (len(a) == 3 and a[2].endswith("len(%s)" % a[1])):
            r2.violate("finish|flush-all", f"DispatcherDelegate::finish flushes {a[1:]} instead of (input, input.len())", dfin.loc())

    rule_flush_operands(ctx, mir, sites=sites)

    # ------------------------------------------------------------------ R11.3
    r = ctx.rule("R11.3", "commit only after success: in try_produce_token_from_lexeme emit_chunk_before_lexeme dominates the token call, which dominates consume_lexeme; the token call's error edge returns without consume_lexeme", "E-MIR", floor=2)
    sm.check_commit_order(mir, r)

    rule_flag_independence(ctx, idx, mir)

    # ------------------------------------------------------------------ R11.5
    r = ctx.rule("R11.5", "bail-out handlers run once and only on bail-out: handle_bail_out is called only from run_bail_out_handlers, which is called only at the bail-out sites (none inside a loop); the controller iterates bail_out_handlers front to back", "E-MIR", floor=3)
    callers = [(f_, bi) for f_, bi, t in mir.callers_of(r"handle_bail_out$") if not mir.is_test_fn(f_)]
    names = sorted(set(f_.key for f_, _ in callers))
    r.inst("handle_bail_out|callers", sample={"callers": names})
    if names != ["Dispatcher::run_bail_out_handlers"]:
        r.violate("handle_bail_out|callers", f"TransformController::handle_bail_out is called from {names}", None)
    callers = [(f_, bi) for f_, bi, t in mir.callers_of(r"Dispatcher::run_bail_out_handlers$") if not mir.is_test_fn(f_)]
    names = sorted(set(f_.key for f_, _ in callers))
    r.inst("run_bail_out_handlers|callers", sample={"callers": names, "sites": len(callers)})
    if not set(names) <= {"TransformStream::write", "TransformStream::end"}:
        r.violate("run_bail_out_handlers|callers", f"run_bail_out_handlers is called from {names}", None)
    for f_, bi in callers:
        # not in a loop: block cannot reach itself
        if any(bi in f_.reachable_blocks(s) for s in f_.succs()[bi]):
            r.violate(f"{f_.key}|loop", f"{f_.key}: run_bail_out_handlers sits inside a loop (handlers could run more than once)", f_.loc())
    hb = mir.fns_matching(r"^HtmlRewriteController::handle_bail_out\[TransformController\]$")
    r.inst("controller|iteration")
    if len(hb) != 1:
        r.violate("controller|iteration", "HtmlRewriteController::handle_bail_out not found", None)
    else:
        its = [callee_key(t) for bi, t in hb[0].calls()]
        if any("rev" in c for c in its) or not any("iter" in c.lower() for c in its):
            r.violate("controller|iteration", f"HtmlRewriteController::handle_bail_out does not iterate bail_out_handlers front to back: {its}", hb[0].loc())

    # ------------------------------------------------------------------ R11.6 (shared with C10 R10.1)
    # the bail-out flush re-emits buffer + data: Arena::append must not have copied part of `data` before it failed
    from .c10 import rule_charge_before_grow
    rule_charge_before_grow(ctx, mir, rid="R11.6")

    # ------------------------------------------------------------------ R11.7 (shared with C10 R10.2)
    # which flag governs a failure is decided by the error's kind: a memory error must stay a MemoryLimitExceeded
    from .c10 import rule_limit_errors
    rule_limit_errors(ctx, mir, rid="R11.7")

    # ------------------------------------------------------------------ R11.8 (generic, scoped to this property's anchors)
    sm.rule_named_plumbing(ctx, mir, "C11", "R11.8", floor=36)

    # ------------------------------------------------------------------ R11.9 (= R10.11)
    from .c10 import rule_errors_not_swallowed
    rule_errors_not_swallowed(ctx, mir, rid="R11.9")

    # ------------------------------------------------------------------ R11.10 (= R12.8)
    # after a bail-out the raw remainder starts at the failed token: it must not have been emitted already
    from .c12 import rule_failed_token_not_emitted
    rule_failed_token_not_emitted(ctx, mir, rid="R11.10")

    ctx.not_decided += ["the concatenation equality itself for every failure index (run-time positions)", "the two documented exceptions (content being removed; text handler failing on a later chunk of a partly emitted text node)"]
    return ("CFG path rules (dominance / must-pass-through, exhaustive over all paths of the MIR control-flow graphs) on "
            "TransformStream::write/end, Dispatcher::{try_produce_token_from_lexeme,flush_for_bail_out,run_bail_out_handlers,finish}; "
            "decides the ordering and operand-identity conditions of graceful bail-out, not the byte equality at run time.")


def rule_bail_out_sites(ctx, mir, rid="R11.1"):
    write = mir.fn("TransformStream::write")
    end = mir.fn("TransformStream::end")
    # ------------------------------------------------------------------ R11.1
    r = ctx.rule(rid, "every Err exit of TransformStream::write/end passes should_bail_out_for; on its true edge run_bail_out_handlers precedes every flush_for_bail_out and a flush lies on every path to the return; on the false edge neither is called", "E-MIR", floor=4)
    sites = []
    for f in (write, end):
        # the tail call of Dispatcher::finish in end() is the documented exception (rule R11.1x)
        errs = [e for e in f.err_return_blocks() if not (f.blocks[e]["term"]["k"] == "call" and callee_key(f.blocks[e]["term"]).endswith("Dispatcher::finish"))]
        sb = [bi for bi, t in f.calls(r"TransformStream::should_bail_out_for$")]
        r.count("err_exits", len(errs))
        r.count("should_bail_out_for_calls", len(sb))
        for e in errs:
            key = f"{f.key}|err-exit#{errs.index(e)}"
            r.inst(key, sample={"fn": f.key, "err_block": e})
            # every path entry -> e passes one of sb
            if f.can_reach_without(0, {e}, set(sb)):
                r.violate(key, f"{f.key}: an Err(..) return is reachable without asking should_bail_out_for (no graceful bail-out on this exit)", f.loc())
        for s in sb:
            se = f.switch_edges(s)
            key = f"{f.key}|bail-site#{sb.index(s)}"
            r.inst(key)
            if se is None:
                r.violate(key, f"{f.key}: result of should_bail_out_for is not branched on directly", f.loc())
                continue
            false_s, true_s = se
            errs_after = [e for e in errs if e in f.reachable_blocks(s)]
            run_b = set(bi for bi, t in f.calls(r"Dispatcher::run_bail_out_handlers$") if bi in f.reachable_blocks(true_s, avoid=errs_after))
            flush_b = set(bi for bi, t in f.calls(r"Dispatcher::flush_for_bail_out$") if bi in f.reachable_blocks(true_s, avoid=errs_after))
            sites.append((f, s, sorted(flush_b)))
            if not run_b or f.can_reach_without(true_s, set(errs_after), run_b):
                r.violate(key + "|run", f"{f.key}: bail-out branch reaches the Err return without run_bail_out_handlers", f.loc())
            if not flush_b or f.can_reach_without(true_s, set(errs_after), flush_b):
                r.violate(key + "|flush", f"{f.key}: bail-out branch reaches the Err return without flush_for_bail_out (received bytes would be lost)", f.loc())
            if flush_b and f.can_reach_without(true_s, flush_b, run_b) and true_s not in run_b:
                r.violate(key + "|order", f"{f.key}: flush_for_bail_out can run before run_bail_out_handlers (handler output must precede the raw flush)", f.loc())
            # false edge (and anything between the question and the branch): nothing
            fr = f.reachable_blocks(false_s, avoid=errs_after) | (f.reachable_blocks(f.blocks[s]["term"]["t"], avoid=[true_s] + list(errs_after)))
            bad = [bi for bi, t in f.calls(r"Dispatcher::(run_bail_out_handlers|flush_for_bail_out)$") if bi in fr]
            if bad:
                r.violate(key + "|false-edge", f"{f.key}: bail-out handlers/flush reachable when should_bail_out_for is false", f.loc())
    return r, sites


def rule_flag_independence(ctx, idx, mir, rid="R11.4"):
    # ------------------------------------------------------------------ R11.4
    r = ctx.rule(rid, "flags are independent: should_bail_out_for is an exhaustive match MemoryLimitExceeded->memory flag, ContentHandlerError->handler flag, ParsingAmbiguity->false; the flags are read nowhere else", "E-AST+E-MIR", floor=3)
    # each flag travels unchanged from Settings to the TransformStream field that should_bail_out_for reads
    for fn_, agg_, pairs in (("HtmlRewriter::new", "TransformStreamSettings", (("graceful_bail_out_on_memory_limit_exceeded", "settings.memory_settings.graceful_bail_out_on_memory_limit_exceeded"), ("graceful_bail_out_on_content_handler_error", "settings.graceful_bail_out_on_content_handler_error"))),
                              ("TransformStream::new", "TransformStream", (("graceful_bail_out_on_memory_limit_exceeded", "settings.graceful_bail_out_on_memory_limit_exceeded"), ("graceful_bail_out_on_content_handler_error", "settings.graceful_bail_out_on_content_handler_error")))):
        f_ = mir.fn(fn_)
        ag_ = [st["rv"] for b in f_.blocks for st in b["stmts"] if st["k"] == "assign" and st["rv"]["k"] == "agg" and (st["rv"].get("name") or "").endswith("::" + agg_)]
        d_ = dict(zip(ag_[0]["fields"], [f_.deep(o) for o in ag_[0]["ops"]])) if len(ag_) == 1 else {}
        for fld_, want_ in pairs:
            r.inst(fn_ + "|" + fld_, sample={"source": d_.get(fld_)})
            if d_.get(fld_) != want_:
                r.violate(fn_ + "|" + fld_, f"{fn_} fills {agg_}.{fld_} from `{d_.get(fld_)}` instead of `{want_}`: the two graceful bail-out flags are no longer independent (e.g. the memory flag alone would also recover content handler errors)", f_.loc())
    f = idx.one("should_bail_out_for", owner="TransformStream")
    table = {}
    for n in walk(f.node["body"]):
        if n.get("k") == "Match":
            for arm in n["arms"]:
                pat = arm["pat"]
                nm = (pat.get("path") or pat.get("s") or "").split("::")[-1].split("(")[0].strip()
                table[nm] = (arm["body"].get("s") or "").replace(" ", "").strip("{}")
    want = {
        "MemoryLimitExceeded": "self.graceful_bail_out_on_memory_limit_exceeded",
        "ContentHandlerError": "self.graceful_bail_out_on_content_handler_error",
        "ParsingAmbiguity": "false",
    }
    for k, v in want.items():
        r.inst(k, sample={"variant": k, "decides": table.get(k)})
        if table.get(k) != v:
            r.violate(k, f"should_bail_out_for: {k} is decided by {table.get(k)!r}, expected {v!r}", "src/transform_stream/mod.rs")
    extra = set(table) - set(want)
    if extra:
        r.violate("extra", f"should_bail_out_for has unexpected arms {sorted(extra)}", "src/transform_stream/mod.rs")
    for fld in ("graceful_bail_out_on_memory_limit_exceeded", "graceful_bail_out_on_content_handler_error"):
        readers = sorted(set(f_.key for f_ in mir.fns if not mir.is_test_fn(f_) and ("TransformStream." + fld) in sm.fields_read(f_)))
        r.inst("readers:" + fld, sample={"field": fld, "readers": readers})
        if readers != ["TransformStream::should_bail_out_for"]:
            r.violate("readers:" + fld, f"TransformStream.{fld} is read by {readers}; only should_bail_out_for may decide on it", "src/transform_stream/mod.rs")


class _NullRule:
    rid = "-"
    def inst(self, *a, **k): pass
    def violate(self, *a, **k): pass
    def count(self, *a, **k): pass
    def control(self, *a, **k): pass
    analysed = {}


class _NullCtx:
    def rule(self, *a, **k):
        return _NullRule()


def rule_flush_operands(ctx, mir, rid="R11.2", sites=None):
    if sites is None:
        _, sites = rule_bail_out_sites(_NullCtx(), mir)
    # ------------------------------------------------------------------ R11.2
    r = ctx.rule(rid, "what is flushed: after a failed parse(chunk) the same chunk; after a failed append(data) the buffered bytes then data; after a failed init_with(x) the same x; flush_for_bail_out starts at remaining_content_start, ignores emission_enabled and resets the offset", "E-MIR", floor=5)
    for f, s, flush_b in sites:
        # which failing operation dominates this site?
        cand = []
        for bi, t in f.calls(r"(Parser::parse|Arena::append|Arena::init_with)$"):
            if f.dominates(bi, s):
                cand.append((bi, t))
        key = f"{f.key}|bail-site#{s}"
        if not cand:
            r.inst(key)
            r.violate(key, f"{f.key}: bail-out site not dominated by parse/append/init_with", f.loc())
            continue
        # the closest dominating one
        cand.sort(key=lambda x: len(f.dominators()[x[0]]))
        bi, t = cand[-1]
        op = callee_key(t)
        args = [f.describe_operand(a) for a in t["args"]]
        flushed = [f.describe_operand(f.blocks[b]["term"]["args"][1]) for b in flush_b]
        # order flushes by dominance
        fb = sorted(flush_b, key=lambda b: len(f.dominators()[b]))
        flushed = [f.describe_operand(f.blocks[b]["term"]["args"][1]) for b in fb]
        key = f"{f.key}|{op}"
        r.inst(key, sample={"fn": f.key, "failed_op": op, "op_args": args, "flushed": flushed})
        if op == "Parser::parse":
            want = [args[1]]
        elif op == "Arena::init_with":
            want = [args[1]]
        else:
            want = [f"Arena::bytes({args[0]})", args[1]]
        if flushed != want:
            r.violate(key, f"{f.key}: after a failed {op}({', '.join(args[1:])}) the bail-out flushes {flushed}, expected {want} (bytes lost or duplicated)", f.loc())
    ffb = mir.fn("Dispatcher::flush_for_bail_out")
    r.inst("flush_for_bail_out|shape")
    reads = sm.fields_read(ffb)
    writes = sm.fields_written(ffb)
    if "DispatcherDelegate.emission_enabled" in reads:
        r.violate("flush_for_bail_out|emission", "flush_for_bail_out consults emission_enabled (bytes of content being removed would be lost on bail-out)", ffb.loc())
    if "DispatcherDelegate.remaining_content_start" not in reads or "DispatcherDelegate.remaining_content_start" not in writes:
        r.violate("flush_for_bail_out|offset", "flush_for_bail_out does not read and reset remaining_content_start", ffb.loc())
    else:
        # slice start must be remaining_content_start; written value must be the constant 0
        gets = [t for bi, t in ffb.calls(r"slice::get|get\[SliceIndex\]|SliceIndex")]
        ok = False
        for bi, t in ffb.calls(r"get$"):
            d = [ffb.describe_operand(a) for a in t["args"]]
            if any("remaining_content_start" in x and "RangeFrom" in x for x in d):
                ok = True
        if not ok:
            r.violate("flush_for_bail_out|range", "flush_for_bail_out no longer slices input[remaining_content_start..]", ffb.loc())
        for f_, bi, st in mir.field_writes("DispatcherDelegate", "remaining_content_start"):
            if f_ is ffb:
                v = ffb.describe_operand(st["rv"]["o"]) if st["rv"]["k"] == "use" else "?"
                if not v.startswith("const 0"):
                    r.violate("flush_for_bail_out|reset", f"flush_for_bail_out resets remaining_content_start to {v}", ffb.loc())
