"""C06 Handler independence — mode-switch (tag scanner <-> lexer) clauses."""
import re
from ..mirlib import load, callee_key, short_ty
from ..smimpl import index, impl_methods, field_effects
from ..astlib import walk
from ..facts import EngineError
from . import shared_mir as sm


def run(ctx):
    mir = load()
    idx = index()

    rule_bookmark(ctx, mir)

    rule_sticky_scratch(ctx, mir, idx)

    rule_hint_flag(ctx, mir)

    # ------------------------------------------------------------------ R06.4
    r = ctx.rule("R06.4", "tree-builder feedback is requested exactly once per tag: only Lexer::try_get_tree_builder_feedback (under FeedbackDirective::None) and TagScanner::try_apply_tree_builder_feedback call the simulator; a pending text-type change travels as ApplyUnhandledFeedback, otherwise Skip", "E-MIR", floor=3)
    callers = sorted(set(f2.key for f2, bi, t in mir.callers_of(r"TreeBuilderSimulator::get_feedback_for_(start|end)_tag$") if not mir.is_test_fn(f2)))
    r.inst("callers", sample={"callers": callers})
    if callers != ["Lexer::try_get_tree_builder_feedback", "TagScanner::try_apply_tree_builder_feedback"]:
        r.violate("callers", f"the tree builder simulator is asked for feedback from {callers}; a second request for the same tag would push/pop namespaces twice", None)
    tg = mir.fn("Lexer::try_get_tree_builder_feedback")
    sw = [bi for bi, b in enumerate(tg.blocks) if b["term"]["k"] == "switch" and "discr(" in tg.describe_operand(b["term"]["d"]) and "take" in tg.describe_operand(b["term"]["d"])]
    r.inst("lexer|under-none")
    fb = [bi for bi, t in tg.calls(r"get_feedback_for_(start|end)_tag$")]
    if len(sw) != 1 or len(fb) != 2:
        r.violate("lexer|under-none", "Lexer::try_get_tree_builder_feedback: expected a match on feedback_directive.take() and two simulator calls", tg.loc())
    else:
        # enum FeedbackDirective { ApplyUnhandledFeedback(0), Skip(1), None(2) }
        fd = mir.adt("FeedbackDirective")
        order = [v["name"] for v in fd["variants"]]
        none_idx = order.index("None")
        t = tg.blocks[sw[0]]["term"]
        tgt = dict((v, b) for v, b in t["ts"])
        none_t = tgt.get(none_idx, t["else"])
        others = [b for v, b in t["ts"] if v != none_idx]
        if not all(tg.dominates(none_t, b) for b in fb) or any(any(b in tg.reachable_blocks(o, avoid=[none_t]) for b in fb) for o in others):
            r.violate("lexer|under-none", "the lexer asks the simulator for feedback although the tag scanner already did (feedback directive is not None)", tg.loc())
    tf = mir.fn("TagScanner::take_feedback_directive")
    calls = [callee_key(t) for bi, t in tf.calls()]
    r.inst("scanner|take_feedback_directive", sample={"calls": calls})
    aggs = [st["rv"]["name"].split("::")[-1] for f2 in mir.fns if f2.key.startswith("TagScanner::take_feedback_directive") for b in f2.blocks for st in b["stmts"] if st["k"] == "assign" and st["rv"]["k"] == "agg"]
    consts = [tf.describe_operand(a) for bi, t in tf.calls() for a in t["args"]]
    if not any("Option::take" in c for c in calls) or "ApplyUnhandledFeedback" not in aggs or not any("Skip" in c for c in consts + aggs):
        r.violate("scanner|take_feedback_directive", f"TagScanner::take_feedback_directive no longer yields ApplyUnhandledFeedback for a pending text-type change and Skip otherwise (aggregates {aggs})", tf.loc())

    # ------------------------------------------------------------------ R06.5
    r = ctx.rule("R06.5", "the two action implementations agree at tag emission: both emit_tag end in text type Data unless feedback supplied another", "E-MIR", floor=2)
    for owner in ("Lexer", "TagScanner"):
        f = mir.fn(f"{owner}::emit_tag[StateMachineActions]")
        st = [(bi, f.describe_operand(t["args"][1])) for bi, t in f.calls(r"set_last_text_type")]
        consts = [f.describe_operand(a) for bi, t in f.calls() for a in t["args"]]
        r.inst(owner, sample={"set_last_text_type": [d for _, d in st]})
        if not st or not any("TextType::Data" in d for d in consts + [d for _, d in st]):
            r.violate(owner, f"{owner}::emit_tag does not fall back to TextType::Data after a tag", f.loc())

    # ------------------------------------------------------------------ R06.6 / R06.7 (shared)
    # a selector's matches must not depend on which other selectors forced an attribute bail-out: C04 R04.6
    from .c04 import rule_pipeline
    rule_pipeline(ctx, mir, rid="R06.6")
    # the namespace of a tag must not depend on whether the lexer or the tag scanner asked for feedback: C16 R16.3
    from .c16 import rule_ns_of_tag
    rule_ns_of_tag(ctx, mir, rid="R06.7")

    # ------------------------------------------------------------------ R06.9 (shared with C07 R07.5)
    r = ctx.rule("R06.9", "end-tag handling in the dispatcher does not depend on the parser mode: the selector VM is told about a tag before the dispatcher tests whether content removal stops at it", "E-MIR", floor=1)
    from .c07 import clause_vm_told_before_reenable, clause_raw_emission_gated
    clause_vm_told_before_reenable(r, mir)
    clause_raw_emission_gated(r, mir)

    # ------------------------------------------------------------------ R06.10 (shared with C09 R09.4)
    # in scan mode (no observer) the scanner's consumed count decides what is re-fed with the next chunk
    from .c09 import rule_consumed_count
    rule_consumed_count(ctx, idx, rid="R06.10")

    # ------------------------------------------------------------------ R06.8 (shared with C04 R04.7)
    # match ids must not depend on how many other selectors are registered
    from .c04 import rule_absolute_indices
    rule_absolute_indices(ctx, mir, rid="R06.8")

    # ------------------------------------------------------------------ R06.11 (shared with C03 R03.1 / R03.5)
    # both state machines run the same table; a wrong transition (e.g. text state after `/>`) shows up differently in the two modes
    from .c03 import rule_product
    from ..smgraph import Graph as _G6, automaton as _a6
    _aut6 = _a6()
    rule_product(ctx, _G6(_aut6), _aut6, rid="R06.11")

    # ------------------------------------------------------------------ R06.12 (= R15.4)
    from .c15 import rule_action_preconditions
    from ..smgraph import Graph as _G, automaton as _aut
    _a = _aut()
    rule_action_preconditions(ctx, idx, _G(_a), _a, rid="R06.12")

    # ------------------------------------------------------------------ R06.13 (generic, scoped to this property's anchors)
    sm.rule_named_plumbing(ctx, mir, "C06", "R06.13", floor=57)

    # ------------------------------------------------------------------ R06.14
    rule_every_tag_reaches_simulator(ctx, mir)

    # ------------------------------------------------------------------ R06.15
    rule_scanner_handover(ctx, mir)

    ctx.not_decided += ["equality of event logs under handler sets H and H ∪ O as such (relation between two runs)"]
    return ("Rules on the hand-over between the tag scanner and the lexer: type-driven bookmark completeness, reset of sticky per-tag scratch on "
            "every continuing exit of finish_tag_name (CFG dominance), the stale-hint-flag protocol and once-per-tag tree-builder feedback.")


def rule_sticky_scratch(ctx, mir, idx, rid="R06.2"):
    # ------------------------------------------------------------------ R06.2
    r = ctx.rule(rid, "per-tag scratch of the tag scanner is reset on every continuing exit of finish_tag_name (sticky fields = set by create_end_tag but not re-initialised by create_start_tag, plus the tag start mark)", "E-AST+E-MIR", floor=3)
    ms = impl_methods(idx, "TagScanner", "StateMachineActions")
    if "create_start_tag" not in ms or "create_end_tag" not in ms:
        raise EngineError("R06.2 anchor: TagScanner::create_start_tag/create_end_tag")
    w_start = set(f for f, e, _ in field_effects(ms["create_start_tag"]))
    w_end = set(f for f, e, _ in field_effects(ms["create_end_tag"]))
    sticky = sorted(w_end - w_start)
    r.analysed["sticky_fields"] = sticky
    if not sticky:
        raise EngineError("R06.2: no sticky per-tag field found (anchor moved)")
    f = mir.fn("TagScanner::finish_tag_name[StateMachineActions]")
    cont = [bi for bi, t in f.calls(r"change_parser_directive$")]
    okret = [bi for bi, b in enumerate(f.blocks) for st in b["stmts"] if st["k"] == "assign" and st["p"]["local"] == 0 and not st["p"]["proj"] and st["rv"]["k"] == "agg" and st["rv"]["name"].endswith("Result::Ok")]
    exits = [("switch-to-lexer#%d" % i, b) for i, b in enumerate(cont)] + [("stay#%d" % i, b) for i, b in enumerate(okret)]
    r.count("continuing_exits", len(exits))
    if len(cont) < 2 or len(okret) < 1:
        raise EngineError("R06.2: expected >=2 change_parser_directive exits and >=1 Ok exit in finish_tag_name")
    for fld in sticky:
        ws = [bi for f2, bi, st in mir.field_writes("TagScanner", fld) if f2 is f]
        for name, e in exits:
            key = f"{fld}|{name}"
            r.inst(key, sample={"field": fld, "exit": name})
            if not any(f.dominates(w, e) for w in ws):
                r.violate(key, f"TagScanner::finish_tag_name can leave through `{name}` without resetting `{fld}`: the next tag seen by the scanner would be treated with the stale value (e.g. a start tag handled as an end tag)", f.loc())
    takes = [bi for bi, t in f.calls(r"Option::take$") if "tag_start" in f.describe_operand(t["args"][0])]
    for name, e in exits:
        key = f"tag_start|{name}"
        r.inst(key)
        if not any(f.dominates(w, e) for w in takes):
            r.violate(key, f"finish_tag_name can leave through `{name}` without releasing tag_start", f.loc())
    # the value used for the hint is the one read *before* the reset
    eh = list(f.calls(r"TagScanner::emit_tag_hint$"))
    r.inst("hint-arg")
    if len(eh) != 1 or f.describe_operand(eh[0][1]["args"][3]) != "is_in_end_tag":
        r.violate("hint-arg", "emit_tag_hint is not given the saved is_in_end_tag value", f.loc())



def rule_bookmark(ctx, mir, rid="R06.1"):
    # ------------------------------------------------------------------ R06.1
    r = ctx.rule(rid, "bookmark completeness: every field of StateMachineBookmark is filled from the live state in create_bookmark and restored in continue_from_bookmark; every state field common to Lexer and TagScanner is transferred or re-established", "E-MIR (type-driven)", floor=8)
    bm = mir.adt("StateMachineBookmark")
    fields = [f["name"] for f in bm["variants"][0]["fields"]]
    cb = mir.fn("StateMachine::create_bookmark")
    agg = [st for b in cb.blocks for st in b["stmts"] if st["k"] == "assign" and st["rv"]["k"] == "agg" and st["rv"]["name"].endswith("StateMachineBookmark")]
    if len(agg) != 1:
        raise EngineError(rid + ": StateMachineBookmark construction not found in create_bookmark")
    src = dict(zip(agg[0]["rv"]["fields"], [cb.describe_operand(o) for o in agg[0]["rv"]["ops"]]))
    want_src = {
        "cdata_allowed": r"cdata_allowed\[?.*\(self\)|StateMachineConditions::cdata_allowed\(self\)",
        "text_type": r"last_text_type\(self\)",
        "last_start_tag_name_hash": r"last_start_tag_name_hash\(self\)",
        "pos": r"^pos$",
        "feedback_directive": r"^feedback_directive$",
    }
    cf = mir.fn("StateMachine::continue_from_bookmark")
    restore = {}
    for bi, t in cf.calls():
        ck = callee_key(t)
        for a in t["args"][1:]:
            d = cf.describe_operand(a)
            m = re.match(r"^bookmark\.([a-z_]+)$", d)
            if m:
                restore.setdefault(m.group(1), []).append(ck.split("::")[-1])
    want_restore = {
        "cdata_allowed": "set_cdata_allowed",
        "text_type": "switch_text_type",
        "last_start_tag_name_hash": "set_last_start_tag_name_hash",
        "pos": "set_pos",
        "feedback_directive": "adjust_to_bookmark",
    }
    for fld in fields:
        key = "bookmark." + fld
        r.inst(key, sample={"field": fld, "captured_from": src.get(fld), "restored_by": restore.get(fld)})
        if fld not in src:
            r.violate(key + "|capture", f"create_bookmark does not fill StateMachineBookmark.{fld}", cb.loc())
        elif fld in want_src and not re.search(want_src[fld], src[fld]):
            r.violate(key + "|capture", f"create_bookmark fills {fld} from `{src[fld]}` instead of the live state", cb.loc())
        elif fld not in want_src:
            r.violate(key + "|unknown", f"new bookmark field {fld}: no reference for how it is captured/restored (extend the rule table)", cb.loc())
        if fld not in restore:
            r.violate(key + "|restore", f"continue_from_bookmark ignores StateMachineBookmark.{fld}: this part of the state is lost when the parser switches between tag scanning and lexing", cf.loc())
        elif fld in want_restore and want_restore[fld] not in restore[fld]:
            r.violate(key + "|restore", f"continue_from_bookmark restores {fld} through {restore[fld]} instead of {want_restore[fld]}", cf.loc())
    lx = {f["name"]: f["ty"] for f in mir.adt("Lexer")["variants"][0]["fields"]}
    tg = {f["name"]: f["ty"] for f in mir.adt("TagScanner")["variants"][0]["fields"]}
    EXC = {
        "next_pos": "restored by set_pos(bookmark.pos)",
        "is_last_input": "set by run_parsing_loop(last) on every entry",
        "state": "re-derived from the text type by switch_text_type",
        "closing_quote": "only live inside a quoted value; switches happen at tag boundaries",
        "cdata_allowed": "bookmark.cdata_allowed",
        "last_start_tag_name_hash": "bookmark.last_start_tag_name_hash",
        "last_text_type": "bookmark.text_type",
    }
    for name in sorted(set(lx) & set(tg)):
        r.inst("common." + name, sample={"field": name, "how": EXC.get(name)})
        if name not in EXC:
            r.violate("common." + name, f"state field `{name}` exists in both Lexer and TagScanner but is neither carried by the bookmark nor re-established at a switch", None)
        elif EXC[name].startswith("bookmark."):
            bf = EXC[name].split(".", 1)[1]
            if bf not in fields or bf not in src or bf not in restore:
                r.violate("common." + name, f"state field `{name}` exists in both Lexer and TagScanner but StateMachineBookmark no longer carries it ({bf} captured: {bf in src}, restored: {bf in restore}): the value the tag scanner established (e.g. CDATA permission after <svg>/<math>, text type, last start tag) is lost when the parser switches to the lexer for a matched tag", cf.loc())



def rule_hint_flag(ctx, mir, rid="R06.3"):
    # ------------------------------------------------------------------ R06.3
    r = ctx.rule(rid, "stale hint flag: Dispatcher.got_flags_from_hint becomes true only when the hint switches the parser to the lexer; it is cleared when consumed and on the aux-info path", "E-MIR", floor=3)
    ws = [(f2, bi, st) for f2, bi, st in mir.field_writes("Dispatcher", "got_flags_from_hint") if not mir.is_test_fn(f2)]
    seen = {}
    for f2, bi, st in ws:
        v = f2.describe_operand(st["rv"]["o"]) if st["rv"]["k"] == "use" else st["rv"]["k"]
        seen.setdefault(f2.key, []).append(v)
    r.analysed["writers"] = seen
    want = {"Dispatcher::apply_capture_flags_from_hint_and_get_next_parser_directive", "Dispatcher::handle_tag[LexemeSink]", "Dispatcher::handle_start_tag_hint[TagHintSink]"}
    r.inst("writers", sample=seen)
    if set(seen) != want:
        r.violate("writers", f"got_flags_from_hint is written in {sorted(seen)}, expected {sorted(want)}", None)
    for k, vs in seen.items():
        for v in vs:
            if k.endswith("apply_capture_flags_from_hint_and_get_next_parser_directive"):
                r.inst("apply|value", sample={"value": v})
                # must be derived from the directive (matches!(directive, Lex)), never the constant true
                if v.startswith("const true"):
                    r.violate("apply|value", "got_flags_from_hint is set to true unconditionally after a hint: a hint that keeps the scanner in scan mode would leave a stale flag and the next lexed tag would skip selector matching", None)
            else:
                r.inst(k + "|clear")
                if not v.startswith("const false"):
                    r.violate(k + "|clear", f"{k} assigns got_flags_from_hint = {v}, expected false", None)
    ap = mir.fn("Dispatcher::apply_capture_flags_from_hint_and_get_next_parser_directive")
    # the stored value depends on the discriminant of the directive computed in the same function
    wr = [(bi, st) for f2, bi, st in mir.field_writes("Dispatcher", "got_flags_from_hint") if f2 is ap]
    gd = [bi for bi, t in ap.calls(r"get_next_parser_directive$")]
    r.inst("apply|depends-on-directive")
    if not gd or not wr or not all(ap.dominates(gd[0], bi) for bi, _ in wr):
        r.violate("apply|depends-on-directive", "got_flags_from_hint is not computed from the parser directive chosen for this hint", ap.loc())
    else:
        sws = [bi for bi, b in enumerate(ap.blocks) if b["term"]["k"] == "switch" and "directive" in ap.describe_operand(b["term"]["d"])]
        if not sws:
            r.violate("apply|depends-on-directive", "no branch on the directive before got_flags_from_hint is stored", ap.loc())
    ht = mir.fn("Dispatcher::handle_tag[LexemeSink]")
    r.inst("handle_tag|consume")
    sw = [bi for bi, b in enumerate(ht.blocks) if b["term"]["k"] == "switch" and ht.describe_operand(b["term"]["d"]).endswith("got_flags_from_hint")]
    wr = [bi for f2, bi, st in mir.field_writes("Dispatcher", "got_flags_from_hint") if f2 is ht]
    adj = [bi for bi, t in ht.calls(r"adjust_capture_flags_for_tag_lexeme$")]
    if len(sw) != 1 or len(wr) != 1 or len(adj) != 1:
        r.violate("handle_tag|consume", "handle_tag: expected one test of got_flags_from_hint, one clearing write and one adjust_capture_flags_for_tag_lexeme call", ht.loc())
    else:
        false_t = [x[1] for x in ht.blocks[sw[0]]["term"]["ts"] if x[0] == 0][0]
        true_t = ht.blocks[sw[0]]["term"]["else"]
        if not ht.dominates(true_t, wr[0]) or not ht.dominates(false_t, adj[0]):
            r.violate("handle_tag|consume", "handle_tag must clear the flag when it is set and run selector matching (adjust_capture_flags_for_tag_lexeme) when it is not", ht.loc())


def rule_every_tag_reaches_simulator(ctx, mir, rid="R06.14"):
    """both parsers report every tag to the tree-builder simulator (it tracks namespaces and, in strict mode, the ambiguity guard)"""
    import re as _re
    from ..mirlib import guarding_branches as _gb
    r = ctx.rule(rid, "every tag reaches the tree-builder simulator in both parsing modes: the calls of get_feedback_for_start_tag / get_feedback_for_end_tag in the lexer and in the tag scanner depend only on the kind of tag (and, in the lexer, on feedback already obtained by the tag scanner) - not on namespace depth, handlers or any other state", "E-MIR control dependence", floor=4)
    allowed = {"is_in_end_tag", "token", "feedback_directive"}
    sites = {}
    for f in mir.fns:
        if mir.is_test_fn(f):
            continue
        for bi, t in f.calls(r"TreeBuilderSimulator::get_feedback_for_(start|end)_tag$"):
            which = t["callee"].split("::")[-1]
            gs = [f.deep(f.blocks[sb]["term"]["d"]) for sb in _gb(f, bi)]
            key = f.key + "|" + which
            sites.setdefault(f.key, set()).add(which)
            r.inst(key, sample={"guards": gs})
            for g in gs:
                ids = set(_re.findall(r"(?<![A-Za-z0-9_:])[a-z_][a-z0-9_]*", g)) - {"discr", "self", "take", "copy", "move", "const"}
                if not ids <= allowed:
                    r.violate(key, f"{f.key} asks the simulator for {which} only when `{g[:120]}` holds: tags for which it does not hold are invisible to the simulator in this mode (namespace tracking / strict-mode ambiguity tracking then differs between lexer and tag scanner)", f.loc())
    want = {"Lexer::try_get_tree_builder_feedback", "TagScanner::try_apply_tree_builder_feedback"}
    r.inst("callers", sample={"callers": sorted(sites)})
    if len(sites) != 2 or any(v != {"get_feedback_for_start_tag", "get_feedback_for_end_tag"} for v in sites.values()):
        r.violate("callers", f"the simulator is consulted by {dict((k, sorted(v)) for k, v in sites.items())}; expected exactly one function in the lexer and one in the tag scanner, each reporting both start and end tags", "src/parser/tree_builder_simulator/mod.rs")


def rule_scanner_handover(ctx, mir, rid="R06.15"):
    """tag scanner -> lexer hand-over: the tag at which the switch happens is reported to the simulator exactly once"""
    r = ctx.rule(rid, "a tag handed from the tag scanner to the lexer is reported to the tree-builder simulator once: every change_parser_directive(.., Lex, d) in the tag scanner passes d = ApplyUnhandledFeedback{..} or take_feedback_directive() (Skip / the parked text-type switch) - never a directive that makes the lexer ask again; the parked switch (pending_text_type_change) is written only by try_apply_tree_builder_feedback and consumed only by emit_tag / take_feedback_directive", "E-MIR operand provenance + who-may-write", floor=3)
    n = 0
    for f in mir.fns:
        if mir.is_test_fn(f) or f.owner != "TagScanner":
            continue
        for bi, t in f.calls(r"change_parser_directive$"):
            if len(t["args"]) < 4 or "ParserDirective::Lex" not in f.deep(t["args"][2]):
                continue
            n += 1
            d = f.deep(t["args"][3])
            key = f"{f.key}|hand-over#{n}"
            r.inst(key, sample={"directive": d[:100]})
            if not (d.startswith("parser::state_machine::FeedbackDirective::ApplyUnhandledFeedback{") or re.fullmatch(r"TagScanner::take_feedback_directive\(self\)", d)):
                r.violate(key, f"{f.key} switches to the lexer with feedback directive `{d[:100]}`: unless it is the feedback just obtained or take_feedback_directive(), the lexer asks the simulator about the same tag a second time (a second namespace level is popped for nested <svg>/<math>) or loses the parked text-type switch", f.loc())
    if n < 2:
        raise EngineError(f"{rid}: fewer than 2 hand-over sites found in the tag scanner")
    w = sorted(f.key for f in mir.fns if not mir.is_test_fn(f) and "TagScanner.pending_text_type_change" in sm.fields_written(f))
    rd = sorted(f.key for f in mir.fns if not mir.is_test_fn(f) and "TagScanner.pending_text_type_change" in sm.fields_read(f))
    r.inst("pending_text_type_change|writers", sample={"writers": w, "readers": rd})
    if w != ["TagScanner::try_apply_tree_builder_feedback"]:
        r.violate("pending_text_type_change|writers", f"TagScanner.pending_text_type_change is written by {w}; only try_apply_tree_builder_feedback may park a text-type switch (and nothing may drop it: HTML ignores `/>` on <script/>, <title/>, ...)", "src/parser/tag_scanner/mod.rs")
    if rd != ["TagScanner::emit_tag[StateMachineActions]", "TagScanner::take_feedback_directive"]:
        r.violate("pending_text_type_change|readers", f"TagScanner.pending_text_type_change is consumed by {rd}; expected emit_tag and take_feedback_directive only", "src/parser/tag_scanner/mod.rs")

