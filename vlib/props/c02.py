"""C02 Chunk-boundary invariance — mechanism clauses."""
import re
from ..mirlib import load, callee_key, short_ty, strip_generics
from ..smgraph import Graph, automaton
from ..sm import NONE, fmt_mask, describe_leaf
from ..facts import EngineError
from . import shared, shared_mir as sm

TEXT_EOC_ALLOWED = {"emit_text"}


def norm_path(fp):
    """drop Box/Unique/NonNull internals and the base variable"""
    if fp is None:
        return None
    parts = fp.split("|")[1:]
    parts = [p for p in parts if not re.match(r"^(Box|Unique|NonNull)\.", p)]
    return "|".join(parts)


def receiver_path(f, t):
    """field path of the receiver of an align call, seeing through as_mut_slice()/deref_mut()"""
    op = t["args"][0]
    for _ in range(4):
        fp = f.field_path(op)
        r = f.root_place(op)
        if r is None:
            return None
        loc, proj = r
        if 1 <= loc <= f.rec["arg_count"]:
            return norm_path(fp)
        ds = f.defs_of(loc)
        if len(ds) == 1 and ds[0][0] == "call" and re.search(r"(as_mut_slice|deref_mut|as_mut|as_deref_mut)", callee_key(ds[0][2])):
            op = ds[0][2]["args"][0]
            continue
        return norm_path(fp)
    return None


class TypeInfo:
    def __init__(self, mir):
        self.mir = mir
        self.align_impls = set()
        for i in mir.impls:
            if i["trait"].endswith("align::Align"):
                self.align_impls.add(strip_generics(i["self_ty"]).split("::")[-1])
        self.adts = {p.split("::")[-1]: a for p, a in mir.adts.items()}

    def leaves(self, ty, prefix, depth=0):
        """position-bearing leaf paths under a field of type `ty`"""
        ty = ty.strip()
        if depth > 6:
            return []
        m = re.match(r"^std::option::Option<(.*)>$", ty)
        if m:
            return [prefix] if self.leaves(m.group(1), prefix, depth + 1) else []
        m = re.match(r"^std::vec::Vec<(.*)>$", ty)
        if m:
            return [prefix] if self.leaves(m.group(1), prefix, depth + 1) else []
        m = re.match(r"^std::boxed::Box<(.*)>$", ty)
        if m:
            return self.leaves(m.group(1), prefix, depth + 1)
        base = strip_generics(ty).split("::")[-1]
        if base in self.align_impls and base != "usize":
            return [prefix]
        a = self.adts.get(base)
        if a is not None and not a["enum"]:
            out = []
            for fld in a["variants"][0]["fields"]:
                out += self.leaves(fld["ty"], (prefix + "|" if prefix else "") + base + "." + fld["name"], depth + 1)
            return out
        return []


def run(ctx):
    mir = load()
    aut = automaton()
    ti = TypeInfo(mir)

    rule_lookahead_truncation(ctx, aut)

    # ------------------------------------------------------------------ R02.2
    r = ctx.rule("R02.2", "Align covers every stored range: each impl Align re-bases every position-bearing field; Lexer/TagScanner::adjust_for_next_input re-base or reset every position field", "E-MIR (type-driven)", floor=14)
    n_impl = 0
    for f in mir.fns:
        if f.trait != "Align" or mir.is_test_fn(f) or f.closure_suffix:
            continue
        base = f.owner
        adt = ti.adts.get(base)
        if adt is None:
            continue
        n_impl += 1
        actual = set()
        for bi, t in f.calls(r"align\[Align\]$|Align::align$"):
            p = receiver_path(f, t)
            if p is not None:
                actual.add(p)
        for v in adt["variants"]:
            for fld in v["fields"]:
                owner = v["name"] if adt["enum"] else base
                for leaf in ti.leaves(fld["ty"], owner + "." + fld["name"]):
                    key = f"{base}|{leaf}"
                    r.inst(key, sample={"impl": f.key, "field": leaf, "type": fld["ty"]})
                    if leaf not in actual:
                        r.violate(key, f"impl Align for {base} does not re-base `{leaf}` ({fld['ty']}): after the consumed prefix is dropped at a chunk boundary this range keeps pointing into the old buffer", f.loc())
    if n_impl < 4:
        raise EngineError("R02.2: fewer than 4 local Align impls found")
    EXC = {
        ("Lexer", "next_pos"): "re-based by set_pos(pos - consumed) in break_on_end_of_input (R02.3)",
        ("TagScanner", "next_pos"): "re-based by set_pos(pos - consumed) in break_on_end_of_input (R02.3)",
        ("TagScanner", "ch_sequence_matching_start"): "re-established by enter_ch_sequence_matching when the state is re-entered, before any read (checked below)",
    }
    for owner in ("Lexer", "TagScanner"):
        f = mir.fn(f"{owner}::adjust_for_next_input[StateMachine]")
        adt = ti.adts[owner]
        aligned = set()
        for bi, t in f.calls(r"align\[Align\]$|Align::align$"):
            p = receiver_path(f, t)
            if p:
                aligned.add(p)
        assigned = set(short_ty(st["p"]["proj"][-1]["of"]) + "." + st["p"]["proj"][-1]["f"] for b in f.blocks for st in b["stmts"] if st["k"] == "assign" and st["p"]["proj"] and isinstance(st["p"]["proj"][-1], dict) and "f" in st["p"]["proj"][-1])
        for fld in adt["variants"][0]["fields"]:
            ty = fld["ty"]
            posish = ty in ("usize", "std::option::Option<usize>") or ti.leaves(ty, "x")
            if not posish:
                continue
            key = f"{owner}.{fld['name']}"
            path = f"{owner}.{fld['name']}"
            how = "aligned" if path in aligned else ("assigned" if path in assigned else None)
            if how is None and (owner, fld["name"]) in EXC:
                how = "exception: " + EXC[(owner, fld["name"])]
            r.inst(key, sample={"field": key, "type": ty, "handled": how})
            if how is None:
                r.violate(key, f"{owner}::adjust_for_next_input neither re-bases nor resets `{fld['name']}` ({ty}); it would keep an offset into the previous chunk", f.loc())
    # the lexer aligns by lexeme_start and only then resets it
    f = mir.fn("Lexer::adjust_for_next_input[StateMachine]")
    offs = set(f.describe_operand(t["args"][1]) for bi, t in f.calls(r"align\[Align\]$"))
    r.inst("Lexer|offset", sample={"offsets": sorted(offs)})
    if offs != {"self.lexeme_start"}:
        r.violate("Lexer|offset", f"Lexer::adjust_for_next_input aligns by {sorted(offs)}, expected the consumed count self.lexeme_start", f.loc())
    rs = [bi for f2, bi, st in mir.field_writes("Lexer", "lexeme_start") if f2 is f]
    al = [bi for bi, t in f.calls(r"align\[Align\]$")]
    if not rs or not all(f.dominates(a, rs[0]) for a in al):
        r.violate("Lexer|reset-order", "Lexer::adjust_for_next_input resets lexeme_start before all ranges were aligned by it", f.loc())
    # nothing but positions changes at a chunk boundary: per-tag state shared with the other state machine / the dispatcher
    # (feedback directive, text type, flags) must survive it
    for owner_fn, allowed in (("Lexer::adjust_for_next_input[StateMachine]", {"Lexer.lexeme_start"}), ("TagScanner::adjust_for_next_input[StateMachine]", {"TagScanner.tag_start"})):
        g = mir.fn(owner_fn)
        ws_ = set()
        for b_ in g.blocks:
            for st_ in b_["stmts"]:
                if st_["k"] == "assign" and st_["p"]["proj"] and isinstance(st_["p"]["proj"][-1], dict) and "f" in st_["p"]["proj"][-1]:
                    ws_.add(short_ty(st_["p"]["proj"][-1]["of"]) + "." + st_["p"]["proj"][-1]["f"])
        r.inst(owner_fn.split("[")[0] + "|writes-only-positions", sample={"writes": sorted(ws_)})
        extra = sorted(w for w in ws_ - allowed if not re.search(r"\.(start|end|pos|next_pos|\d+)$", w))
        if extra:
            r.violate(owner_fn.split("[")[0] + "|writes-only-positions", f"{owner_fn.split('[')[0]} also resets {extra} when a chunk ends: state that the tag scanner / dispatcher handed over for the tag being parsed (e.g. 'feedback already applied') is forgotten if a write boundary falls inside that tag, and the tree-builder feedback is applied twice", g.loc())
    # re-basing is unconditional: the ranges are live whenever the buffer is shifted (token_part_start is set before a token exists)
    from ..mirlib import guarding_branches as _gb2
    for owner_fn in ("Lexer::adjust_for_next_input[StateMachine]", "TagScanner::adjust_for_next_input[StateMachine]"):
        g = mir.fn(owner_fn)
        cond = [(callee_key(t), [g.deep(g.blocks[sb]["term"]["d"])[:60] for sb in _gb2(g, bi)]) for bi, t in g.calls(r"align\[Align\]$|Align::align$")]
        cond = [(c, gs) for c, gs in cond if any(not gg.startswith("discr(") or "current_" in gg for gg in gs)]
        r.inst(owner_fn.split("[")[0] + "|unconditional")
        if cond:
            r.violate(owner_fn.split("[")[0] + "|unconditional", f"{owner_fn.split('[')[0]} re-bases its stored positions only under a condition ({cond[0][1]}): a position recorded before the condition holds (token_part_start right after `<!`, before any token exists) keeps pointing into the previous buffer when a chunk ends there", g.loc())
    # exception check: every sequence arm enters sequence matching before its first look-ahead
    for st, s in aut.states.items():
        for l in s["leaves"]:
            if l["la"]:
                names = [a["name"] for a in l["acts"]]
                r.inst("seq-enter:" + st, nontrivial=False)
                if "@enter_seq" not in names:
                    r.violate("seq-enter:" + st, f"{st} looks ahead without enter_ch_sequence_matching (the scanner would not keep the matched prefix buffered across a chunk boundary)", shared.state_loc(st))
                break

    # ------------------------------------------------------------------ R02.3
    r = ctx.rule("R02.3", "break_on_end_of_input: adjust_for_next_input iff not last, then set_pos(pos - consumed), and the same consumed count is reported", "E-MIR", floor=3)
    f = mir.fn("StateMachine::break_on_end_of_input")
    gc = list(f.calls(r"get_consumed_byte_count$"))
    ad = list(f.calls(r"adjust_for_next_input$"))
    sp = list(f.calls(r"::set_pos$"))
    il = list(f.calls(r"is_last_input$"))
    r.inst("shape", sample={"get_consumed": len(gc), "adjust": len(ad), "set_pos": len(sp), "is_last_input": len(il)})
    if not (len(gc) == 1 and len(ad) == 1 and len(sp) == 1 and len(il) == 1):
        r.violate("shape", "break_on_end_of_input: expected one call each of get_consumed_byte_count, is_last_input, adjust_for_next_input, set_pos", f.loc())
    else:
        se = f.switch_edges(il[0][0])
        r.inst("adjust-iff-not-last")
        if not se or not f.dominates(se[0], ad[0][0]) or f.dominates(se[1], ad[0][0]) and se[0] != se[1] and not f.dominates(se[0], ad[0][0]):
            r.violate("adjust-iff-not-last", "adjust_for_next_input is not executed exactly on the `!is_last_input()` edge", f.loc())
        if se and se[0] != ad[0][0] and f.can_reach_without(se[0], {sp[0][0]}, {ad[0][0]}):
            r.violate("adjust-iff-not-last", "when the input is not last, set_pos can be reached without adjust_for_next_input", f.loc())
        if not f.dominates(gc[0][0], ad[0][0]) or not f.dominates(gc[0][0], sp[0][0]):
            r.violate("order", "get_consumed_byte_count must be read before the state is adjusted", f.loc())
        r.inst("set_pos-arg")
        d = f.describe_operand(sp[0][1]["args"][1])
        if not re.search(r"pos\(self\).*Sub.*consumed_byte_count|Sub", d) or "consumed_byte_count" not in d or "pos" not in d:
            r.violate("set_pos-arg", f"set_pos is given `{d}`, expected pos() - consumed_byte_count", f.loc())
        ag = [st for b in f.blocks for st in b["stmts"] if st["k"] == "assign" and st["rv"]["k"] == "agg" and st["rv"]["name"].endswith("ActionError::EndOfInput")]
        r.inst("reported-count")
        if len(ag) != 1 or [f.describe_operand(o) for o in ag[0]["rv"]["ops"]] != ["consumed_byte_count"]:
            r.violate("reported-count", "EndOfInput does not report the consumed byte count that was used for re-basing", f.loc())
    # Parser::parse adds the same count
    p = mir.fn("Parser::parse")
    r.inst("parse|count")
    w = [(bi, st) for f2, bi, st in mir.field_writes("ParserContext", "previously_consumed_byte_count") if f2 is p]
    if len(w) != 1:
        r.violate("parse|count", "Parser::parse does not update previously_consumed_byte_count exactly once", p.loc())

    # ------------------------------------------------------------------ R02.4
    r = ctx.rule("R02.4", "pending text is flushed before scope can change: flush_pending_captured_text dominates handle_start_tag / handle_end_tag and every non-text token production", "E-MIR", floor=3)
    for nm, pats in (("Dispatcher::handle_tag[LexemeSink]", [r"adjust_capture_flags_for_tag_lexeme$", r"try_produce_token_from_lexeme$"]),
                     ("Dispatcher::handle_end_tag_hint[TagHintSink]", [r"handle_end_tag$"]),):
        f = mir.fn(nm)
        fl = [bi for bi, t in f.calls(r"Dispatcher::flush_pending_captured_text$")]
        for pat in pats:
            for bi, t in f.calls(pat):
                key = f"{nm}|{callee_key(t)}"
                r.inst(key, sample={"fn": nm, "guarded_call": callee_key(t)})
                if not any(f.dominates(x, bi) for x in fl):
                    r.violate(key, f"{nm}: {callee_key(t)} can run before pending captured text is flushed (text handlers would see text under the wrong scope / last_in_text_node would be missing)", f.loc())
    f = mir.fn("Dispatcher::handle_non_tag_content[LexemeSink]")
    fl = [bi for bi, t in f.calls(r"Dispatcher::flush_pending_captured_text$")]
    tp = [bi for bi, t in f.calls(r"try_produce_token_from_lexeme$")]
    r.inst("handle_non_tag_content", sample={"flush_calls": len(fl), "produce_calls": len(tp)})
    if len(fl) != 1 or len(tp) != 1:
        r.violate("handle_non_tag_content", "handle_non_tag_content: expected one flush_pending_captured_text and one try_produce_token_from_lexeme", f.loc())
    else:
        # the only path that skips the flush is the Text(_) arm
        if f.can_reach_without(0, {tp[0]}, {fl[0]}):
            # find the switch that decides: must be on the token outline discriminant with the Text variant
            ok = False
            for bi, b in enumerate(f.blocks):
                sw = b["term"]
                if sw["k"] == "switch" and f.dominates(bi, fl[0]) is False:
                    pass
            # structural: blocks reachable from entry avoiding the flush, up to produce, may contain only switches on discriminants
            skip_region = f.reachable_blocks(0, avoid=[fl[0]])
            discr_switches = [bi for bi in skip_region if f.blocks[bi]["term"]["k"] == "switch"]
            descs = [f.describe_operand(f.blocks[bi]["term"]["d"]) for bi in discr_switches]
            if not all("discr(" in d for d in descs) or len(discr_switches) > 2:
                r.violate("handle_non_tag_content|skip", f"handle_non_tag_content skips the flush on a condition other than 'the lexeme is text': {descs}", f.loc())
    ac = mir.fn("Dispatcher::adjust_capture_flags_for_tag_lexeme")
    callers = sorted(set(f2.key for f2, bi, t in mir.callers_of(r"TransformController::handle_start_tag$|handle_start_tag\[TransformController\]$") if not mir.is_test_fn(f2) and f2.owner == "Dispatcher"))
    r.inst("handle_start_tag|callers", sample={"callers": callers})
    want = ["Dispatcher::adjust_capture_flags_for_tag_lexeme", "Dispatcher::handle_start_tag_hint[TagHintSink]"]
    if callers != want:
        r.violate("handle_start_tag|callers", f"TransformController::handle_start_tag is called from {callers}, expected {want} (the hint path runs in scan mode where no text is captured)", None)

    # ------------------------------------------------------------------ R02.5
    r = ctx.rule("R02.5", "rewrite_str performs exactly one write followed by end", "E-MIR", floor=1)
    f = mir.fn("rewriter::rewrite_str_utf8")
    ws = [bi for bi, t in f.calls(r"HtmlRewriter::write$")]
    es = [bi for bi, t in f.calls(r"HtmlRewriter::end$")]
    r.inst("rewrite_str_utf8", sample={"writes": len(ws), "ends": len(es)})
    if len(ws) != 1 or len(es) != 1 or not f.dominates(ws[0], es[0]) or any(ws[0] in f.reachable_blocks(s) for s in f.succs()[ws[0]]):
        r.violate("rewrite_str_utf8", "rewrite_str_utf8 is not a single write() followed by end()", f.loc())
    sm.clause_rewrite_str_plumbing(r, mir)
    sm.clause_seq_mark_writes(r, mir)

    rule_decoder_fast_path(ctx, mir)

    # ------------------------------------------------------------------ R02.7 (shared with C13 R13.4)
    # the slow (streaming) and the fast decode path must treat a leading U+FEFF alike: no BOM handling on either
    from .c13 import rule_no_bom_sniffing
    rule_no_bom_sniffing(ctx, mir, rid="R02.7")

    # ------------------------------------------------------------------ R02.8 (shared with C09 R09.4)
    # what the parser reports as consumed decides which bytes are re-fed with the next chunk
    from .c09 import rule_consumed_count
    from ..smimpl import index as _index
    rule_consumed_count(ctx, _index(), rid="R02.8")

    # ------------------------------------------------------------------ R02.9 (shared with C06 R06.3)
    # "selector matching already ran for this tag" must survive a chunk boundary inside the tag
    from .c06 import rule_hint_flag
    rule_hint_flag(ctx, mir, rid="R02.9")

    # ------------------------------------------------------------------ R02.10 (generic, scoped to this property's anchors)
    sm.rule_named_plumbing(ctx, mir, "C02", "R02.10", floor=28)

    ctx.not_decided += ["invariance of the concatenation of text chunks (decoder arithmetic)", "equality of outputs/events between two schedules as such (relation between runs)"]
    return ("Mechanism clauses of chunk-boundary invariance: end-of-chunk behaviour of all %d automaton states incl. every look-ahead prefix, "
            "type-driven completeness of Align impls and of adjust_for_next_input, re-basing in break_on_end_of_input, flush-before-scope-change "
            "dominance in the dispatcher, the decoder fast-path guard." % len(aut.states))


def rule_decoder_fast_path(ctx, mir, rid="R02.6"):
    # ------------------------------------------------------------------ R02.6
    r = ctx.rule(rid, "the text decoder's fast path is never taken while the streaming decoder may hold the head of a split character: in split_utf8_start everything is dominated by the `pending decoder is none` edge", "E-MIR", floor=2)
    f = mir.fn("TextDecoder::split_utf8_start")
    chk = [(bi, t) for bi, t in f.calls(r"Option::is_some$|Option::is_none$") if "pending_text_streaming_decoder" in f.describe_operand(t["args"][0])]
    r.inst("guard-present", sample={"guards": len(chk)})
    if len(chk) != 1:
        r.violate("guard-present", "split_utf8_start no longer tests pending_text_streaming_decoder before taking the fast path", f.loc())
    else:
        bi, t = chk[0]
        se = f.switch_edges(bi)
        is_some = callee_key(t).endswith("is_some")
        go = se[0] if is_some else se[1]     # edge on which no decoder is pending
        stop = se[1] if is_some else se[0]
        work = [b for b, tt in f.calls(r"from_utf8|ascii_valid_up_to|split_at_checked")]
        r.inst("guard-dominates", sample={"fast_path_calls": len(work)})
        if not work:
            raise EngineError("R02.6: fast-path calls not found in split_utf8_start")
        for wbi in work:
            if not f.dominates(go, wbi):
                r.violate("guard-dominates", "part of the fast path of split_utf8_start is reachable while a streaming decoder is pending (a trail byte of a split multi-byte character would be emitted on its own)", f.loc())
                break
        # on the pending edge the function returns None without computing anything
        reach = f.reachable_blocks(stop)
        if any(b in reach for b in work):
            r.violate("pending-returns-none", "with a pending streaming decoder split_utf8_start still computes a fast-path split", f.loc())
    ff = mir.fn("TextDecoder::feed_text")
    r.inst("feed_text|single-fast-path")
    if len(list(ff.calls(r"TextDecoder::split_utf8_start$"))) != 1:
        r.violate("feed_text|single-fast-path", "feed_text must consult split_utf8_start exactly once, before the streaming decoder", ff.loc())



def rule_lookahead_truncation(ctx, aut, rid="R02.1"):
    # ------------------------------------------------------------------ R02.1
    r = ctx.rule(rid, "look-ahead never decides on a truncated chunk: wherever the consumed byte or a look-ahead byte is 'end of chunk, not last', the leaf only breaks (text states may emit_text first)", "E-SM", floor=65)
    text_states = set(aut.text_state_map.values())
    n_break = 0
    for st, s in aut.states.items():
        r.inst(st, nontrivial=True)
        for l in s["leaves"]:
            syms = [("ch", l["c0"])] + [("la%d" % k, v) for k, v in sorted(l["la"].items())]
            has_none = [(n, m) for n, m in syms if m is not None and m & (1 << NONE)]
            if not has_none:
                continue
            key = st + "|" + ",".join(n for n, _ in has_none)
            if l["last"] is None:
                r.violate(key + "|undecided", f"a leaf of {st} accepts end-of-chunk without asking is_last_input(): {describe_leaf(st, l)}", shared.state_loc(st))
                continue
            if l["last"] is True:
                continue
            n_break += 1
            mixed = [(n, m) for n, m in has_none if m != (1 << NONE)]
            if mixed:
                r.violate(key + "|merged", f"{st}: end of a non-last chunk is treated like a byte mismatch ({mixed[0][0]}={fmt_mask(mixed[0][1])}) - the state would decide on a truncated look-ahead: {describe_leaf(st, l)}", shared.state_loc(st))
                continue
            if l["term"]["t"] != "break":
                r.violate(key + "|no-break", f"{st}: at end of a non-last chunk the state does not break: {describe_leaf(st, l)}", shared.state_loc(st))
                continue
            acts = [a["name"] for a in l["acts"] if not a.get("internal")]
            internal = [a["name"] for a in l["acts"] if a.get("internal")]
            allowed = TEXT_EOC_ALLOWED if (st in text_states and l["c0"] == (1 << NONE)) else set()
            # `@leave_seq` of *earlier* sequence arms that mismatched on the first byte is fine; what must not
            # happen is consuming / un-consuming or leaving the arm that is currently waiting for more input
            depth = 0
            bad_internal = False
            for a in internal:
                if a == "@enter_seq":
                    depth += 1
                elif a == "@leave_seq":
                    depth -= 1
                elif a in ("@consume_several", "@unconsume"):
                    bad_internal = True
            waiting_on_lookahead = any(n != "ch" for n, _ in has_none)
            if waiting_on_lookahead and depth != 1:
                bad_internal = True
            if any(a not in allowed for a in acts) or bad_internal:
                r.violate(key + "|acts", f"{st}: actions run before breaking at end of a non-last chunk: {describe_leaf(st, l)}", shared.state_loc(st))
    r.count("end_of_chunk_leaves", n_break)
    if n_break < 65 + 30 and not r.violations:
        raise EngineError(rid + ": only %d end-of-chunk leaves found" % n_break)

