"""C13 Character-encoding fidelity — type-level and routing clauses."""
import re
from ..mirlib import load, callee_key, _rv_operands, guarding_branches
from ..facts import EngineError
from . import shared, shared_mir as sm

BOM_SNIFFING = re.compile(r"Encoding::(decode|new_decoder|new_decoder_with_bom_removal|decode_with_bom_removal)$")
BOM_FREE = re.compile(r"Encoding::(decode_without_bom_handling|decode_without_bom_handling_and_without_replacement|new_decoder_without_bom_handling)$")


def run(ctx):
    mir = load()

    # ------------------------------------------------------------------ R13.1
    r = ctx.rule("R13.1", "non-ASCII-compatible encodings cannot be configured: Settings take an AsciiCompatibleEncoding whose only constructors check is_ascii_compatible() or use the constant UTF_8", "E-TYPE + E-MIR", floor=4)
    shared.check_witness(r, "R13_1NoRawEncoding", "Settings::with_encoding accepts a raw &'static Encoding (UTF-16 could be configured)")
    shared.check_witness(r, "R13_1PrivateConstructor", "the tuple constructor of AsciiCompatibleEncoding is reachable from outside the crate")
    clause_ascii_compatible_ctor(r, mir)
    from . import shared_mir as _sm13
    _sm13.clause_rewrite_str_plumbing(r, mir)

    rule_encoding_switch(ctx, mir)

    # ------------------------------------------------------------------ R13.3
    r = ctx.rule("R13.3", "inserted content is transcoded: a &str's bytes reach an output handler only for UTF-8 output, through TextEncoder::encode, or through BytesCow::owned_from_str*(.., token encoding)", "E-MIR", floor=3)
    n = 0
    for f in mir.fns:
        if mir.is_test_fn(f):
            continue
        for bi, t in f.calls(r"call_mut$"):
            if len(t["atys"]) == 2 and "dyn" in t["atys"][0] and "FnMut(&" in t["atys"][0] and t["atys"][1] == "(&[u8],)":
                from .c12 import unwrap_tuple
                a = unwrap_tuple(f, t["args"][1])
                d = f.describe_operand(a)
                if "str::as_bytes" not in d:
                    continue
                n += 1
                key = f"{f.key}|{d}"
                r.inst(key, sample={"site": f.key, "value": d})
                # allowed: in StreamingHandlerSinkInner::write_html / write_body_text closures on the branch where non_utf8_encoder is None,
                # or inside TextEncoder::encode (the ASCII prefix)
                if f.key.startswith("TextEncoder::encode"):
                    continue
                if f.key.startswith("StreamingHandlerSinkInner::write_html"):
                    # dominated by the None edge of the discriminant of non_utf8_encoder
                    ok = False
                    for sbi, b in enumerate(f.blocks):
                        sw = b["term"]
                        if sw["k"] == "switch" and "non_utf8_encoder" in f.describe_operand(sw["d"]):
                            none_t = [x[1] for x in sw["ts"] if x[0] == 0] or [sw["else"]]
                            if f.dominates(none_t[0], bi):
                                ok = True
                    if not ok:
                        r.violate(key, "write_html hands UTF-8 bytes to the output although a non-UTF-8 encoder may be configured", f.loc())
                    continue
                if f.key.startswith("StreamingHandlerSinkInner::write_body_text::{closure"):
                    # the two closures: the one without encoder must be created only on the None branch
                    par = mir.fn("StreamingHandlerSinkInner::write_body_text")
                    ok = False
                    for sbi, b in enumerate(par.blocks):
                        sw = b["term"]
                        if sw["k"] == "switch" and "non_utf8_encoder" in par.describe_operand(sw["d"]):
                            none_t = [x[1] for x in sw["ts"] if x[0] == 0] or [sw["else"]]
                            for cb, bb in enumerate(par.blocks):
                                for st in bb["stmts"]:
                                    if st["k"] == "assign" and st["rv"]["k"] == "agg" and st["rv"]["what"] == "closure" and st["rv"]["name"] == f.path and par.dominates(none_t[0], cb):
                                        ok = True
                    if not ok:
                        r.violate(key, "write_body_text's raw-bytes closure is not confined to the branch without a non-UTF-8 encoder", f.loc())
                    continue
                r.violate(key, f"{f.key} hands the UTF-8 bytes of a &str (`{d}`) to the output without transcoding to the document encoding", f.loc())
    if n < 3:
        raise EngineError("R13.3: fewer than 3 str-bytes output sites found")
    te = [(f, bi, t) for f, bi, t in mir.callers_of(r"TextEncoder::new$") if not mir.is_test_fn(f)]
    for f, bi, t in te:
        d = f.describe_operand(t["args"][0])
        r.inst(f"{f.key}|TextEncoder::new", sample={"encoding": d})
        if "encoding" not in d:
            r.violate(f"{f.key}|TextEncoder::new", f"TextEncoder is created for `{d}`, expected the token's/document's encoding", f.loc())

    rule_no_bom_sniffing(ctx, mir)

    # ------------------------------------------------------------------ R13.5
    r = ctx.rule("R13.5", "the streaming decoder is never bypassed while it holds part of a character (shared with C02 R02.6) and malformed input is replaced, not dropped: feed_text uses the replacing decode_to_str", "E-MIR", floor=2)
    ft = mir.fn("TextDecoder::feed_text")
    ds = [callee_key(t) for bi, t in ft.calls(r"Decoder::decode_to_")]
    r.inst("feed_text|replacing-decoder", sample={"calls": ds})
    if ds != ["Decoder::decode_to_str"]:
        r.violate("feed_text|replacing-decoder", f"feed_text decodes with {ds}; only the U+FFFD-replacing decode_to_str keeps malformed sequences visible", ft.loc())
    su = mir.fn("TextDecoder::split_utf8_start")
    chk = [bi for bi, t in su.calls(r"Option::is_some$|Option::is_none$") if "pending_text_streaming_decoder" in su.describe_operand(t["args"][0])]
    r.inst("split_utf8_start|guard")
    if len(chk) != 1:
        r.violate("split_utf8_start|guard", "the fast path no longer checks for a pending streaming decoder", su.loc())

    rule_meta_charset(ctx, mir)

    # ------------------------------------------------------------------ R13.6 (see _r136_post below)
    r = ctx.rule("R13.6", "document bytes are taken as UTF-8 only when the document encoding is UTF-8: every str::from_utf8 / String::from_utf8* on non-test paths is dominated by a test `encoding == UTF_8`, or sits in a reviewed function whose input is not document bytes", "E-MIR dominance", floor=4)
    REVIEWED_UTF8 = {
        "LocalNameHash::fmt[Debug]": "Debug output of a hash-decoded ASCII name",
        "IncompleteUtf8Resync::utf8_bytes_to_slice": "bytes of a &str written by a streaming handler (already UTF-8 by type), split at arbitrary points",
        "TextDecoder::split_utf8_start": "second site: the prefix up to valid_up_to, which is either the UTF-8-valid prefix (UTF-8 branch) or the ASCII prefix (ascii_valid_up_to) - identical bytes in every ASCII-compatible encoding; the first site must stay guarded (checked below)",
    }
    guarded_sites = {}
    for f in mir.fns:
        if mir.is_test_fn(f):
            continue
        for bi, t in f.calls(r"(^|::)from_utf8(_unchecked|_lossy|_mut)?$"):
            ck = callee_key(t)
            key = f"{f.key}|{ck}"
            gs = [f.deep(f.blocks[sb]["term"]["d"]) for sb in guarding_branches(f, bi)]
            guarded = any("UTF_8" in g for g in gs)
            guarded_sites[f.key] = guarded_sites.get(f.key, 0) + (1 if guarded else 0)
            r.inst(key, nontrivial=False, sample={"fn": f.key, "call": ck, "guarded_by_utf8_test": guarded, "reviewed": REVIEWED_UTF8.get(f.key)})
            if not guarded and f.key not in REVIEWED_UTF8:
                r.violate(key, f"{f.key} interprets bytes with {ck} without a dominating `encoding == UTF_8` test: in a legacy-encoded document a value whose bytes happen to be well-formed UTF-8 (Big5 C2 BF, windows-1252 \"Ã©\") is returned as different characters than the document contains", f.loc())
    su2 = mir.fn("TextDecoder::split_utf8_start")
    r.inst("split_utf8_start|utf8-branch-guarded")
    if guarded_sites.get("TextDecoder::split_utf8_start", 0) < 1 or not list(su2.calls(r"ascii_valid_up_to$")):
        r.violate("split_utf8_start|utf8-branch-guarded", "TextDecoder::split_utf8_start validates the input as UTF-8 without testing encoding == UTF_8 (or no longer limits other encodings to their ASCII prefix)", su2.loc())

    # ------------------------------------------------------------------ R13.8 (generic, scoped to this property's anchors)
    sm.rule_named_plumbing(ctx, mir, "C13", "R13.8", floor=37)

    # ------------------------------------------------------------------ R13.9
    rule_sink_bytes_provenance(ctx, mir)

    ctx.not_decided += ["streaming-decoder correctness at split multi-byte characters and U+FFFD placement (encoding_rs behaviour at run time)", "numeric character reference generation for unmappable characters (encoding_rs encoder)"]
    return ("Type-level witnesses (compile_fail + compiling twin) that only ASCII-compatible encodings can be configured, who-may-call rules for the "
            "write-once shared encoding and for BOM-sniffing decode entry points, placement of the encoding switch relative to the meta token on the CFG, "
            "and routing of inserted &str bytes through the encoder.")


def rule_no_bom_sniffing(ctx, mir, rid="R13.4"):
    # ------------------------------------------------------------------ R13.4
    r = ctx.rule(rid, "document bytes are decoded strictly in the declared encoding: no BOM-sniffing decode entry point (Encoding::decode / new_decoder / *_with_bom_removal) is applied to a text node, name, value or comment", "E-MIR who-may-call", floor=3)
    dec = []
    for f in mir.fns:
        if mir.is_test_fn(f):
            continue
        for bi, t in f.calls(r"Encoding::"):
            ck = callee_key(t)
            if BOM_SNIFFING.search(ck) or BOM_FREE.search(ck):
                dec.append((f, bi, t, ck))
    for f, bi, t, ck in dec:
        key = f"{f.key}|{ck}"
        r.inst(key, sample={"site": f.key, "call": ck})
        if BOM_SNIFFING.search(ck):
            r.violate(key, f"{f.key} decodes document bytes with {ck}, which sniffs a byte-order mark: a value/comment/text fragment starting with bytes EF BB BF, FF FE or FE FF is decoded as UTF-8/UTF-16 (or loses those bytes) instead of in the document encoding", f.loc())
    if len(dec) < 3:
        raise EngineError(rid + ": fewer than 3 decode entry points found")
    # positive control
    r.control(bool(BOM_SNIFFING.search("Encoding::decode")) and not BOM_SNIFFING.search("Encoding::decode_without_bom_handling"), "regex distinguishes sniffing from non-sniffing entry points")



def clause_ascii_compatible_ctor(r, mir):
    """every construction of AsciiCompatibleEncoding is guarded by is_ascii_compatible() (or is the UTF_8 constant);
    the tuple constructor is never used as a function value (`.map(Self)`), where no check can sit in between"""
    ctors = []
    for f in mir.fns:
        if mir.is_test_fn(f):
            continue
        for bi, b in enumerate(f.blocks):
            for st in b["stmts"]:
                if st["k"] == "assign" and st["rv"]["k"] == "agg" and st["rv"]["name"].endswith("AsciiCompatibleEncoding"):
                    ctors.append((f, bi, st))
    r.count("constructions", len(ctors))
    for f, bi, st in ctors:
        op = f.describe_operand(st["rv"]["ops"][0])
        key = f"{f.key}|construct"
        r.inst(key, sample={"in": f.key, "operand": op})
        if "UTF_8" in op:
            continue
        # must flow only into bool::then_some whose receiver is is_ascii_compatible() of the same encoding
        ok = False
        for cbi, t in f.calls(r"bool::then_some$"):
            recv = f.describe_operand(t["args"][0])
            if "is_ascii_compatible" in recv and op in recv:
                ok = True
        if not ok:
            r.violate(key, f"{f.key} constructs AsciiCompatibleEncoding({op}) without the is_ascii_compatible() check", f.loc())
    if len(ctors) < 2:
        raise EngineError(r.rid + ": fewer than 2 AsciiCompatibleEncoding constructions found")

    for f in mir.fns:
        if mir.is_test_fn(f):
            continue
        for bi, b in enumerate(f.blocks):
            ops = []
            for st in b["stmts"]:
                if st["k"] == "assign":
                    ops += list(_rv_operands(st["rv"]))
            t = b["term"]
            if t["k"] == "call":
                ops += list(t["args"])
                if (t.get("callee") or "").endswith("AsciiCompatibleEncoding"):
                    ops.append({"k": "const", "fn": t["callee"]})
            for o in ops:
                if o.get("k") == "const" and (o.get("fn") or "").endswith("AsciiCompatibleEncoding"):
                    key = f"{f.key}|constructor-as-function"
                    r.inst(key)
                    r.violate(key, f"{f.key} uses the tuple constructor of AsciiCompatibleEncoding as a function (e.g. `.map(Self)`): the encoding it wraps is not checked with is_ascii_compatible(), so a label such as utf-16 or iso-2022-jp (from <meta http-equiv content=...; charset=...>) switches the rewriter to an encoding in which markup bytes are not ASCII", f.loc())

    # the encoding that is checked is the encoding that is used: no detour through Encoding::output_encoding()
    # (it maps UTF-16LE/BE and `replacement` to UTF-8, so a non-ASCII-compatible encoding would pass the check)
    oe = []
    chk = 0
    for f in mir.fns:
        if mir.is_test_fn(f):
            continue
        oe += [(f.key, f.loc()) for bi, t in f.calls(r"Encoding::output_encoding$")]
        chk += len(list(f.calls(r"Encoding::is_ascii_compatible$")))
        for bi, t in f.calls(r"AsciiCompatibleEncoding::new$"):
            a = f.deep(t["args"][0])
            key = f"{f.key}|new-argument"
            r.inst(key, sample={"argument": a[:80]})
            if re.search(r"output_encoding\(|new_encoder|new_decoder", a):
                r.violate(key, f"{f.key} checks `{a[:100]}` instead of the encoding it was given: UTF-16 / replacement are accepted and then treated as UTF-8", f.loc())
    r.inst("no-output_encoding", sample={"calls": oe, "is_ascii_compatible_calls": chk})
    if chk < 1:
        raise EngineError(r.rid + ": no Encoding::is_ascii_compatible call resolved (positive control of the who-may-call clause)")
    for k_, loc_ in oe:
        r.violate(k_ + "|output_encoding", f"{k_} calls Encoding::output_encoding(): the rewriter must read and write one and the same encoding", loc_)


def rule_meta_charset(ctx, mir, rid="R13.7"):
    # ------------------------------------------------------------------ R13.7
    r = ctx.rule(rid, "the first <meta> that declares a usable charset decides: the built-in handler marks `found` only under Some(charset) (and never hands the flag to a call such as mem::replace), and it is registered before the user's element handlers, so it reads the attributes as they are in the input", "E-MIR control dependence / operand order", floor=2)
    cl = [f for f in mir.fns if f.key == "rewriter::handler_adjust_charset_on_meta_tag::{closure#0}"]
    if len(cl) != 1:
        raise EngineError("R13.7: the <meta charset> handler closure was not found")
    hc = cl[0]
    wr = []
    refs = 0
    for bi, b in enumerate(hc.blocks):
        for st in b["stmts"]:
            if st["k"] == "assign" and hc.describe_place(st["p"]).endswith(".found") :
                wr.append((bi, hc.deep(st["rv"]["o"]) if st["rv"]["k"] == "use" else st["rv"]["k"]))
            if st["k"] == "assign" and st["rv"]["k"] in ("ref", "rawptr") and st["rv"].get("mut") and hc.describe_place(st["rv"]["p"]).endswith(".found"):
                refs += 1
    sets = [(bi, v) for bi, v in wr if v.startswith("const true")]
    r.inst("meta-handler|found-set-under-some-charset", sample={"writes": [v for _, v in wr], "mutable_borrows_of_found": refs})
    ok = len(sets) == 1 and refs == 0
    if ok:
        gs = [hc.deep(hc.blocks[sb]["term"]["d"]) for sb in guarding_branches(hc, sets[0][0])]
        ok = any(g.startswith("discr(") and ("or_else" in g or "AsciiCompatibleEncoding" in g or "charset" in g) for g in gs)
        setc = [bi for bi, t in hc.calls(r"OnceLock.*::set$")]
        ok = ok and bool(setc) and all(hc.dominates(sets[0][0], c) or hc.dominates(c, sets[0][0]) for c in setc)
    if not ok:
        r.violate("meta-handler|found-set-under-some-charset", "the <meta> handler marks the encoding as decided somewhere else than under `Some(charset)`: a <meta name=viewport> (or an unusable charset label) before the real declaration would make the declaration be ignored", hc.loc())
    # the pragma form counts only for http-equiv=Content-Type: from_mimetype is reached through a filter on that value
    pr = [g for g in mir.fns if g.key.startswith("rewriter::handler_adjust_charset_on_meta_tag::{closure#0}")]
    mime_users = [g for g in pr if list(g.calls(r"AsciiCompatibleEncoding::from_mimetype$"))]
    filt = [g for g in pr if any("Content-Type" in g.deep(a) for bi, t in g.calls(r"eq_ignore_ascii_case$") for a in t["args"])]
    okp = False
    for g in pr:
        for bi, t in g.calls(r"Option::and_then$"):
            cl_ = [x["rv"]["name"] for a in t["args"][1:] if a.get("k") in ("copy", "move") for kind, dbi, x in g.defs_of(a["p"]["local"]) if kind == "assign" and x["rv"]["k"] == "agg" and x["rv"].get("what") == "closure"]
            if any(m_.path in cl_ for m_ in mime_users) and "Option::filter(" in g.deep(t["args"][0]) and "http-equiv" in g.deep(t["args"][0]):
                okp = True
    r.inst("meta-handler|pragma-only-for-content-type", sample={"from_mimetype_in": [m_.key.split("::")[-1] for m_ in mime_users], "content_type_filters": len(filt)})
    if not okp or not filt or len(mime_users) != 1:
        r.violate("meta-handler|pragma-only-for-content-type", "the <meta> handler reads a charset from `content` without requiring http-equiv to be Content-Type (ASCII case-insensitively): `<meta http-equiv=Content-Style-Type content=\"text/css; charset=euc-jp\">` would switch the document encoding and use up the single permitted switch", hc.loc())
    fs = mir.fn("HtmlRewriteController::from_settings")
    ch = [(fs.deep(t["args"][0]), fs.deep(t["args"][1])) for bi, t in fs.calls(r"Iterator::chain$|::chain$")]
    r.inst("from_settings|meta-handler-first", sample={"chain": [(a[:60], b[:60]) for a, b in ch]})
    if len(ch) != 1 or "charset_adjust_handler" not in ch[0][0] or "element_content_handlers" not in ch[0][1]:
        r.violate("from_settings|meta-handler-first", f"the built-in <meta charset> handler is not registered before the user's element handlers ({ch}): a user handler that rewrites the charset/content attribute would change the encoding the rest of the document is decoded with", fs.loc())

    # every text chunk carries the document encoding (it selects the encoder for the chunk and for what handlers attach to it)
    ftx = mir.fn("TextDecoder::feed_text")
    encs = []
    for bi_, t_ in ftx.calls(r"FnMut::call_mut$|call_mut$"):
        if len(t_["args"]) >= 2:
            ag_ = None
            a1 = t_["args"][1]
            if a1.get("k") in ("copy", "move"):
                for kind_, dbi_, x_ in ftx.defs_of(a1["p"]["local"]):
                    if kind_ == "assign" and x_["rv"]["k"] == "agg" and x_["rv"].get("what") == "tuple":
                        ag_ = x_["rv"]
            if ag_ and len(ag_["ops"]) >= 3:
                encs.append(ftx.deep(ag_["ops"][2]))
    r.inst("feed_text|chunk-encoding", sample={"encoding_operands": [e_[:60] for e_ in encs]})
    if len(encs) != 2 or any(("static " in e_) or ("self.encoding" not in e_) for e_ in encs):
        r.violate("feed_text|chunk-encoding", f"TextDecoder::feed_text hands a text chunk to the handlers with encoding {encs} instead of the document encoding on both paths: content a handler attaches to such a chunk is written as raw UTF-8 into a legacy-encoded document (no transcoding, no numeric character references)", ftx.loc())


def rule_sink_bytes_provenance(ctx, mir, rid="R13.9"):
    r = ctx.rule(rid, "bytes handed to the output sink are either input bytes or the product of an encoder: no OutputSink::handle_chunk call receives the UTF-8 bytes of a Rust string (str::as_bytes / String::into_bytes / from_raw_parts) directly; the closures that forward a chunk `c` to the sink are the ones given to StreamingHandlerSink::new or to the token serializer", "E-MIR operand provenance", floor=6)
    n = 0
    for f in mir.fns:
        if mir.is_test_fn(f):
            continue
        for bi, t in f.calls(r"OutputSink::handle_chunk$|::handle_chunk$"):
            n += 1
            args = [f.deep(a) for a in t["args"][1:]]
            key = f.key + "|handle_chunk"
            r.inst(key, sample={"argument": [a[:100] for a in args]})
            bad = [a for a in args if re.search(r"str::as_bytes\(|String::as_bytes\(|into_bytes\(|from_raw_parts|String::as_str\(|as_bytes_mut\(", a)]
            if bad:
                r.violate(key, f"{f.key} writes the UTF-8 bytes of a string to the output sink without going through the encoder for the document encoding ({bad[0][:120]}): in a non-UTF-8 document the inserted content comes out as mojibake / is not encodable content escaped", f.loc())
            if "{closure" in f.key and args and re.fullmatch(r"c|chunk|bytes|arg\d+", args[0].strip()):
                # the closure must be consumed by an encoding entry point of its parent
                parent_key = f.key.rsplit("::{closure", 1)[0]
                ps = [g for g in mir.fns if g.key == parent_key]
                ok = any(list(g.calls(r"StreamingHandlerSink::new$|Serialize|to_bytes|into_bytes$|Token::.*encode|encode")) for g in ps)
                if not ok:
                    r.violate(key + "|consumer", f"{f.key} forwards chunks to the sink but its parent {parent_key} hands it to no encoder entry point", f.loc())
    r.count("handle_chunk_calls", n)


def rule_encoding_switch(ctx, mir, rid="R13.2"):
    # ------------------------------------------------------------------ R13.2
    r = ctx.rule(rid, "at most one switch, only for tokens after the meta tag, sink notified first: the shared encoding is a write-once cell set only by the charset handler; flush_encoding_change runs only right after the token that may have changed it was produced and committed", "E-MIR", floor=4)
    se = [s for s in mir.fns if False]
    # SharedEncoding = Arc<OnceLock<AsciiCompatibleEncoding>>: type fact from the Dispatcher field
    d = mir.adt("Dispatcher")
    ty = [f["ty"] for f in d["variants"][0]["fields"] if f["name"] == "next_encoding"]
    r.inst("SharedEncoding|type", sample={"type": ty})
    if not ty or not re.search(r"Arc<std::sync::OnceLock<.*AsciiCompatibleEncoding>>", ty[0]):
        r.violate("SharedEncoding|type", f"Dispatcher.next_encoding is {ty}; it must be a write-once cell (Arc<OnceLock<AsciiCompatibleEncoding>>) so the encoding can change at most once", None)
    setters = sorted(set(f.key for f, bi, t in mir.callers_of(r"OnceLock.*::set$") if not mir.is_test_fn(f) and "AsciiCompatibleEncoding" in (t["atys"][0] if t["atys"] else "")))
    r.inst("OnceLock::set|callers", sample={"callers": setters})
    if not setters or not all(s.startswith("rewriter::handler_adjust_charset_on_meta_tag") for s in setters):
        r.violate("OnceLock::set|callers", f"the shared encoding is set from {setters}; only the <meta charset> handler may request a switch", None)
    tp = mir.fn("Dispatcher::try_produce_token_from_lexeme")
    fe = [bi for bi, t in tp.calls(r"Dispatcher::flush_encoding_change$")]
    tok = [bi for bi, t in tp.calls(r"DispatcherDelegate::token_produced$")]
    con = [bi for bi, t in tp.calls(r"DispatcherDelegate::consume_lexeme$")]
    r.inst("flush_encoding_change|placement", sample={"calls": len(fe)})
    if len(fe) != 1 or len(tok) != 1:
        r.violate("flush_encoding_change|placement", "try_produce_token_from_lexeme: expected exactly one flush_encoding_change and one token_produced", tp.loc())
    else:
        if not tp.dominates(tok[0], fe[0]) or not any(tp.dominates(c, fe[0]) for c in con):
            r.violate("flush_encoding_change|placement", "the encoding switch is not applied right after the (meta) token was produced and committed: bytes after the meta tag can reach the sink before set_encoding, and end-of-document content would use the old encoding", tp.loc())
    if len(fe) == 1:
        fg = [tp.deep(tp.blocks[sb]["term"]["d"]) for sb in guarding_branches(tp, fe[0])]
        extra = [g for g in fg if not (g.startswith("discr(ToToken::to_token(") or g.startswith("discr(Result::branch[Try](DispatcherDelegate::token_produced("))]
        r.inst("flush_encoding_change|unconditional-after-commit", sample={"guards": [g[:50] for g in fg]})
        if extra:
            r.violate("flush_encoding_change|unconditional-after-commit", f"the pending encoding switch is applied only under an extra condition ({[g[:70] for g in extra]}): when the <meta> start tag is the only captured token (e.g. only a selector-scoped text handler is registered) the switch is never applied and the following text is decoded in the old encoding", tp.loc())
    callers = sorted(set(f.key for f, bi, t in mir.callers_of(r"Dispatcher::flush_encoding_change$") if not mir.is_test_fn(f)))
    r.inst("flush_encoding_change|callers", sample={"callers": callers})
    if callers != ["Dispatcher::try_produce_token_from_lexeme"]:
        r.violate("flush_encoding_change|callers", f"flush_encoding_change is called from {callers}", None)
    fec = mir.fn("Dispatcher::flush_encoding_change")
    order = [(bi, callee_key(t)) for bi, t in fec.calls(r"set_encoding$")]
    r.inst("flush_encoding_change|decoder", sample={"set_encoding_calls": [c for _, c in order]})
    sg = [fec.deep(fec.blocks[sb]["term"]["d"]) for bi_, c_ in order if "OutputSink::set_encoding" in c_ for sb in guarding_branches(fec, bi_)]
    dg = [fec.deep(fec.blocks[sb]["term"]["d"]) for bi_, c_ in order if "TextDecoder::set_encoding" in c_ for sb in guarding_branches(fec, bi_)]
    r.inst("flush_encoding_change|sink-told-whenever-decoder-switches", sample={"sink_guards": [g[:50] for g in sg], "decoder_guards": [g[:50] for g in dg]})
    if sorted(sg) != sorted(dg):
        r.violate("flush_encoding_change|sink-told-whenever-decoder-switches", f"the sink's set_encoding is called under different conditions ({[g[:60] for g in sg]}) than the decoder's switch ({[g[:60] for g in dg]}): e.g. with emission disabled (a <meta charset> inside removed content) the following bytes are produced in the new encoding without the sink ever being told", fec.loc())
    if not any("TextDecoder::set_encoding" in c for _, c in order) or not any("OutputSink::set_encoding" in c for _, c in order):
        r.violate("flush_encoding_change|decoder", "flush_encoding_change must switch the text decoder and notify the sink", fec.loc())
