"""C14 Source locations — offset-carrying clauses."""
import re
from ..mirlib import load, callee_key, atoms_of_operand
from ..facts import EngineError
from . import shared_mir as sm
from .c02 import TypeInfo, receiver_path


def run(ctx):
    mir = load()

    # ------------------------------------------------------------------ R14.1
    r = ctx.rule("R14.1", "a lexeme's location is previously_consumed_byte_count + raw_range.start, and every lexeme is constructed with the parser context's previously_consumed_byte_count", "E-MIR", floor=8)
    f = mir.fn("Lexeme::spanned")
    sp = list(f.calls(r"Spanned::new$"))
    r.inst("Lexeme::spanned")
    if len(sp) != 1:
        r.violate("Lexeme::spanned", "Lexeme::spanned does not build exactly one Spanned", f.loc())
    else:
        a0 = sp[0][1]["args"][0]
        d = f.describe_operand(a0)
        ok = False
        ds = f.defs_of(a0["p"]["local"]) if a0["k"] in ("copy", "move") else []
        # value = (prev + raw_range.start) possibly through the overflow-checked tuple
        txt = d
        for kind, bi, x in ds:
            if kind == "assign" and x["rv"]["k"] == "use":
                txt = f.describe_operand(x["rv"]["o"])
        ok = "previously_consumed_byte_count" in txt and "raw_range.start" in txt and "Add" in txt
        if not ok:
            r.violate("Lexeme::spanned", f"Lexeme::spanned computes its start as `{txt}`, expected previously_consumed_byte_count + raw_range.start", f.loc())
        a1 = f.describe_operand(sp[0][1]["args"][1])
        if "Lexeme::raw(self)" not in a1:
            r.violate("Lexeme::spanned|bytes", f"Lexeme::spanned spans `{a1}` instead of the lexeme's raw bytes", f.loc())
    n = 0
    for c, bi, t in mir.callers_of(r"Lexer::create_lexeme_with_raw(_inclusive|_exclusive)?$"):
        if mir.is_test_fn(c):
            continue
        d = c.describe_operand(t["args"][1])
        key = f"{c.key}|{callee_key(t)}#{n}"
        n += 1
        r.inst(key, sample={"in": c.key, "offset_arg": d})
        if c.key.startswith("Lexer::create_lexeme_with_raw"):
            if d != "previously_consumed_byte_count":
                r.violate(key, f"{c.key} forwards `{d}` as the document offset", c.loc())
        elif d != "context.previously_consumed_byte_count":
            r.violate(key, f"{c.key} constructs a lexeme with document offset `{d}` instead of context.previously_consumed_byte_count", c.loc())
    for c, bi, t in mir.callers_of(r"Lexeme::new$"):
        if not mir.is_test_fn(c):
            d = c.describe_operand(t["args"][0])
            r.inst(c.key + "|Lexeme::new")
            if d != "previously_consumed_byte_count":
                r.violate(c.key + "|Lexeme::new", f"Lexeme::new receives `{d}` as previously_consumed_byte_count", c.loc())

    # ------------------------------------------------------------------ R14.2
    r = ctx.rule("R14.2", "previously_consumed_byte_count advances only in Parser::parse, by exactly the consumed count that is returned to the caller", "E-MIR", floor=2)
    ws = [(f2, bi, st) for f2, bi, st in mir.field_writes("ParserContext", "previously_consumed_byte_count") if not mir.is_test_fn(f2)]
    names = sorted(set(f2.key for f2, _, _ in ws))
    r.inst("writers", sample={"writers": names})
    if names != ["Parser::parse"]:
        r.violate("writers", f"ParserContext.previously_consumed_byte_count is written in {names}", None)
    p = mir.fn("Parser::parse")
    for f2, bi, st in ws:
        if f2 is not p:
            continue
        r.inst("parse|increment")
        rv_ = st["rv"]
        d = p.describe_operand(rv_["o"]) if rv_["k"] == "use" else ("(%s %s %s)" % (p.describe_operand(rv_["a"]), rv_["op"], p.describe_operand(rv_["b"])) if rv_["k"] == "bin" else rv_["k"])
        if not ("Add" in d and "previously_consumed_byte_count" in d and "consumed_byte_count" in d.replace("previously_consumed_byte_count", "")):
            r.violate("parse|increment", f"Parser::parse sets previously_consumed_byte_count to `{d}`, expected += consumed_byte_count", p.loc())
        # the same block region returns Ok(consumed_byte_count)
        oks = [(b2, s2) for b2, b in enumerate(p.blocks) for s2 in b["stmts"] if s2["k"] == "assign" and s2["p"]["local"] == 0 and s2["rv"]["k"] == "agg" and s2["rv"]["name"].endswith("Result::Ok")]
        if len(oks) != 1 or p.describe_operand(oks[0][1]["rv"]["ops"][0]) != "consumed_byte_count" or not (p.dominates(bi, oks[0][0]) or bi == oks[0][0]):
            r.violate("parse|returned", "Parser::parse does not return the same consumed_byte_count it added to the document offset", p.loc())

    # ------------------------------------------------------------------ R14.3
    r = ctx.rule("R14.3", "attribute locations: iter_attrs adds the tag's document offset to both the name start and the value start; Attributes::new receives the lexeme's input_byte_offset()", "E-MIR", floor=3)
    cl = [f2 for f2 in mir.fns if f2.key.startswith("Attributes::iter_attrs::{closure")]
    nz = None
    for f2 in cl:
        for bi, t in f2.calls(r"NonZero.*::new$"):
            nz = (f2, bi, t)
    r.inst("iter_attrs|value-start")
    if nz is None:
        r.violate("iter_attrs|value-start", "iter_attrs no longer computes the value start offset (NonZero::new(base + value.start))", None)
    else:
        f2, bi, t = nz
        d = f2.deep(t["args"][0])
        at = atoms_of_operand(f2, t["args"][0])
        own = sorted(a for a in at if a.startswith("arg2"))
        r.analysed["value_start_provenance"] = sorted(at)
        if "arg1.base" not in at or "Add" not in d or not any(a.endswith("value.start") for a in own) or any(a.endswith(("name.start", "raw_range.start", "raw_range.end", "value.end")) for a in own):
            r.violate("iter_attrs|value-start", f"value location start is `{d[:120]}` (from {sorted(at)}), expected the tag's document offset (base) + the outline's value start", f2.loc())
        fb_guards = []
        for b_ in f2.blocks:
            for st_ in b_["stmts"]:
                if st_["k"] == "assign" and st_["rv"]["k"] == "bin" and st_["rv"]["op"] in ("Eq", "Ne") and "value.start" in f2.deep(st_["rv"]["a"]) + f2.deep(st_["rv"]["b"]):
                    fb_guards.append((f2.deep(st_["rv"]["a"]), f2.deep(st_["rv"]["b"])))
        r.inst("iter_attrs|fallback-only-for-unset-value", sample={"tests": [(a_[-30:], b_[-30:]) for a_, b_ in fb_guards]})
        if len(fb_guards) != 1 or not any(x.startswith("const 0") for x in fb_guards[0]) or any("value.end" in x for x in fb_guards[0]):
            r.violate("iter_attrs|fallback-only-for-unset-value", f"the fall-back location for an attribute without a value is chosen by {fb_guards} instead of `value.start == 0` (the unset range): an explicitly empty value (`alt=\"\"`) has a real position between its quotes and must keep it", f2.loc())
        r.inst("iter_attrs|valueless-fallback")
        if not any(a.endswith("name.end") for a in own):
            r.violate("iter_attrs|valueless-fallback", "the location of an attribute without a value is derived from its unset (0..0) value range alone: the presence marker NonZero::new(base + 0) is None in the first parsed buffer and `base..base` later, so name/value locations of `<input disabled>` depend on how the input was split into writes", f2.loc())
        # name start: find an Add of base and name.start in the same closure tree
        found = False
        for g2 in [x for x in mir.fns if x.key.startswith(f2.key)]:
            for b in g2.blocks:
                for st in b["stmts"]:
                    if st["k"] == "assign" and st["rv"]["k"] == "bin" and st["rv"]["op"].startswith("Add"):
                        da, db = g2.describe_operand(st["rv"]["a"]), g2.describe_operand(st["rv"]["b"])
                        if "base" in da and "name.start" in db:
                            found = True
        r.inst("iter_attrs|name-start")
        if not found:
            r.violate("iter_attrs|name-start", "name location start is not computed as base + name.start", f2.loc())
    ia = mir.fn("Attributes::iter_attrs")
    r.inst("iter_attrs|base")
    bases = [ia.describe_operand(st["rv"]["o"]) for b in ia.blocks for st in b["stmts"] if st["k"] == "assign" and st["rv"]["k"] == "use" and ia.name_of(st["p"]["local"]) == "base"]
    if bases != ["self.source_byte_offset"]:
        r.violate("iter_attrs|base", f"iter_attrs takes its base offset from {bases}, expected self.source_byte_offset", ia.loc())
    n = 0
    for c, bi, t in mir.callers_of(r"Attributes::new$"):
        if mir.is_test_fn(c):
            continue
        d = c.describe_operand(t["args"][3])
        r.inst(f"{c.key}|Attributes::new#{n}", sample={"in": c.key, "source_byte_offset": d})
        n += 1
        if "input_byte_offset" not in d:
            r.violate(f"{c.key}|Attributes::new", f"Attributes::new is given `{d}` as the document offset of the tag's input, expected lexeme.input_byte_offset()", c.loc())

    rule_align_complete(ctx, mir)

    # ------------------------------------------------------------------ R14.5
    r = ctx.rule("R14.5", "rewriting does not change a token's reported location: set_modified keeps the original length", "E-MIR", floor=2)
    # an attribute location is only reported for bytes that are still the original ones: whoever rewrites
    # Attribute.value / .name must also forget the recorded (name, value) start and the raw bytes
    writers = {}
    for fld in ("value", "name"):
        for f2, bi, st in mir.field_writes("Attribute", fld):
            if not mir.is_test_fn(f2) and f2.key != "Attribute::new":
                writers.setdefault(f2.key, f2)
    for k, f2 in sorted(writers.items()):
        resets = {}
        for fld in ("name_value_start", "raw"):
            for f3, bi, st in mir.field_writes("Attribute", fld):
                if f3 is f2:
                    v = st["rv"]
                    resets[fld] = (v.get("name") or "") if v["k"] == "agg" else (f3.deep(v["o"]).split("{")[0] if v["k"] == "use" else v["k"])
        key = k + "|forgets-location"
        r.inst(key, sample={"mutator": k, "resets": resets})
        if not str(resets.get("name_value_start", "")).endswith("Option::None"):
            r.violate(key, f"{k} rewrites an attribute's value/name but keeps its recorded source start (name_value_start = {resets.get('name_value_start')}): value_source_location() then reports old start + new length, a range that is not the value's bytes and can run past the tag", f2.loc())
    if not writers:
        raise EngineError("R14.5: no mutator of Attribute.value found (anchor moved)")
    f = mir.fn("Spanned::set_modified")
    ag = [st for b in f.blocks for st in b["stmts"] if st["k"] == "assign" and st["rv"]["k"] == "agg" and st["rv"]["name"].endswith("RawBytes::Modified")]
    r.inst("set_modified|len")
    if len(ag) != 1 or f.describe_operand(ag[0]["rv"]["ops"][0]) != "Spanned::len(self)":
        d = [f.describe_operand(o) for st in ag for o in st["rv"]["ops"]]
        r.violate("set_modified|len", f"set_modified remembers {d} instead of self.len(): after a second modification the token would report an empty or wrong source range", f.loc())
    ln = [x for x in mir.by_key.get("Spanned::len", []) if "RawBytes" in x.path]
    r.inst("len|both-variants")
    if len(ln) != 1 or not any(b["term"]["k"] == "switch" for b in ln[0].blocks):
        r.violate("len|both-variants", "SpannedRawBytes::len no longer distinguishes Original(slice).len() from Modified(len)", None)
    sl = [x for x in mir.by_key.get("Spanned::source_location", []) if "RawBytes" in x.path]
    r.inst("source_location|shape")
    if len(sl) != 1:
        r.violate("source_location|shape", "SpannedRawBytes::source_location not found", None)
    else:
        c = list(sl[0].calls(r"from_start_len$"))
        d = [sl[0].describe_operand(a) for a in c[0][1]["args"]] if c else []
        if d != ["self.source_location_byte_start", "Spanned::len(self)"]:
            r.violate("source_location|shape", f"source_location() is from_start_len({d}), expected (source_location_byte_start, len())", sl[0].loc())

    # ------------------------------------------------------------------ R14.6
    r = ctx.rule("R14.6", "text chunk ranges are contiguous: in TextDecoder::feed_text every chunk location starts at the running cursor, has the length of the bytes actually read/emitted, and the cursor then moves to that location's end", "E-MIR", floor=2)
    f = mir.fn("TextDecoder::feed_text")
    locs = list(f.calls(r"SourceLocation::from_start_len$"))
    if len(locs) < 2:
        raise EngineError("R14.6: from_start_len calls not found in feed_text")
    cursor_local = [int(k) for k, v in f.rec["names"].items() if v == "next_source_location_bytes_start"]
    if len(cursor_local) != 1:
        raise EngineError("R14.6: cursor variable not found")
    cl_ = cursor_local[0]
    cur_defs = f.defs_of(cl_)
    for bi, t in locs:
        a = [f.describe_operand(x) for x in t["args"]]
        key = "chunk@" + a[1]
        r.inst(key, sample={"start": a[0], "len": a[1]})
        if a[0] != "next_source_location_bytes_start":
            r.violate(key + "|start", f"a text chunk's location starts at `{a[0]}` instead of the running cursor", f.loc())
        if not (a[1] in ("read",) or re.match(r"^str::len\(utf8_text\)$", a[1])):
            r.violate(key + "|len", f"a text chunk's location has length `{a[1]}`; it must be the number of input bytes this chunk covers (decoder `read` count, or the fast path's prefix length)", f.loc())
        # cursor advance: an assignment cursor = bytes(<this location>).end dominated by this call, before the next output
        dest = t["dest"]["local"]
        adv = []
        for kind, dbi, x in cur_defs:
            if kind == "assign" and x["rv"]["k"] == "use":
                rp = f.root_place(x["rv"]["o"])
                d = f.describe_operand(x["rv"]["o"])
                if d.endswith(".end") and f.dominates(bi, dbi):
                    # which location? the bytes() call argument
                    for cbi, ct in f.calls(r"SourceLocation::bytes$"):
                        if f.dominates(bi, cbi) and f.dominates(cbi, dbi):
                            ar = f.root_place(ct["args"][0])
                            if ar and ar[0] == dest:
                                adv.append(dbi)
        if not adv:
            r.violate(key + "|advance", "after this chunk the cursor is not advanced to the end of the chunk's own location (following chunks would overlap it or leave a gap)", f.loc())
    init = [f.describe_operand(x["rv"]["o"]) for kind, dbi, x in cur_defs if kind == "assign" and x["rv"]["k"] == "use" and not f.describe_operand(x["rv"]["o"]).endswith(".end")]
    r.inst("cursor|init", sample={"init": init})
    if init != ["SourceLocation::bytes(Spanned::source_location(input_span)).start"]:
        r.violate("cursor|init", f"the cursor starts at {init}, expected the start of the input span", f.loc())
    w = [(bi, st) for f2, bi, st in mir.field_writes("TextDecoder", "pending_source_location_bytes_start") if f2 is f]
    r.inst("pending|saved")
    if len(w) != 1 or f.describe_operand(w[0][1]["rv"]["o"]) != "next_source_location_bytes_start":
        r.violate("pending|saved", "feed_text does not remember the cursor for the final (flush) chunk of a text node", f.loc())

    # ------------------------------------------------------------------ R14.7
    r = ctx.rule("R14.7", "reported lengths are byte counts of the source, not of decoded text: every SourceLocation::from_start_len in the token types takes its length from the raw bytes (Spanned::len, the name/value byte slice, the fast path's identical bytes, or the decoder's `read` count)", "E-MIR operand shape", floor=5)
    SHAPES = {
        "Spanned::source_location": r"^Spanned::len\(self\)$",
        "Attribute::name_source_location::{closure#0}": r"^\[T\]::len\(BytesCow::deref\[Deref\]\(arg1\._ref__self\.name\)\)$",
        "Attribute::value_source_location::{closure#0}": r"^\[T\]::len\(BytesCow::deref\[Deref\]\(arg1\._ref__self\.value\)\)$",
        "TextDecoder::feed_text": r"^str::len\(TextDecoder::split_utf8_start\(.*\) as Some\.0\.0\)$|Decoder::decode_to_str\(.*\)\.1$",
    }
    for f2 in mir.fns:
        if mir.is_test_fn(f2) or f2.key not in SHAPES:
            continue
        for bi, t in f2.calls(r"SourceLocation::from_start_len$"):
            d = f2.deep(t["args"][1])
            r.inst(f2.key + "|len|%d" % bi, sample={"fn": f2.key, "length": d[-80:]})
            if not re.search(SHAPES[f2.key], d):
                r.violate(f2.key + "|len", f"{f2.key} reports a location whose length is `{d[-110:]}`: it must be the number of source bytes (a decoded string has a different length in legacy encodings, e.g. windows-1252 `café crème` is 10 bytes but 12 UTF-8 bytes), otherwise the range runs past the construct or overlaps the next one", f2.loc())

    # ------------------------------------------------------------------ R14.8 / R14.9 (shared with C03 R03.1, C02 R02.1)
    # a token's range is exact only if the token boundaries are: same emissions with the same raw extents as the reference
    from .c03 import rule_product
    from ..smgraph import Graph as _Graph, automaton as _automaton
    _aut = _automaton()
    rule_product(ctx, _Graph(_aut), _aut, rid="R14.8")
    from .c02 import rule_lookahead_truncation
    rule_lookahead_truncation(ctx, _aut, rid="R14.9")

    # ------------------------------------------------------------------ R14.10 (generic, scoped to this property's anchors)
    sm.rule_named_plumbing(ctx, mir, "C14", "R14.10", floor=30)

    ctx.not_decided += ["that the decoder's `read` counts are right (encoding_rs)", "non-overlap of successive tokens as a run-time relation"]
    return ("Offset-carrying clauses: where document offsets are added (lexeme, attributes), who advances the document offset and by what, "
            "type-driven Align completeness, length preservation of modified tokens, and the contiguity protocol of text-chunk locations "
            "in the text decoder (CFG dominance + operand identity).")


def rule_align_complete(ctx, mir, rid="R14.4"):
    # ------------------------------------------------------------------ R14.4
    r = ctx.rule(rid, "ranges survive the dropping of a consumed prefix: Align completeness (shared with C02 R02.2) for the token outline types", "E-MIR (type-driven)", floor=6)
    ti = TypeInfo(mir)
    for f2 in mir.fns:
        if f2.trait != "Align" or mir.is_test_fn(f2) or f2.closure_suffix or f2.owner not in ti.adts:
            continue
        adt = ti.adts[f2.owner]
        actual = set(p for p in (receiver_path(f2, t) for bi, t in f2.calls(r"align\[Align\]$|Align::align$")) if p)
        for v in adt["variants"]:
            for fld in v["fields"]:
                owner = v["name"] if adt["enum"] else f2.owner
                for leaf in ti.leaves(fld["ty"], owner + "." + fld["name"]):
                    key = f"{f2.owner}|{leaf}"
                    r.inst(key)
                    if leaf not in actual:
                        r.violate(key, f"impl Align for {f2.owner} does not re-base `{leaf}`: source locations / names derived from it would be wrong after a chunk boundary", f2.loc())

