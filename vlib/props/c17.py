"""C17 C API — wrapper discipline (header/ABI agreement, namesake routing, no unwinding, error discipline, ownership pairing)."""
import re
from ..mirlib import load, callee_key, uninspected_results
from ..c_header import parse_header, parse_rust_sig
from ..facts import EngineError
from . import shared_mir as sm

ALIASES = {
    "struct:lol_html_str_t": "struct:Str",
    "struct:lol_html_memory_settings_t": "struct:MemorySettings",
    "struct:lol_html_text_chunk_content_t": "struct:TextChunkContent",
    "ptr:AttributesIterator": "ptr:Iter",
    "ptr:CStreamingHandlerSink": "ptr:StreamingHandlerSink",
    "struct:SourceLocationBytes": "struct:SourceLocationBytes",
}
UNDECLARED_OK = {"lol_html_comment_streaming_after", "lol_html_comment_streaming_before", "lol_html_comment_streaming_replace", "lol_html_end_tag_replace"}

# lol_html_<unit>_<op> -> core method (rename table; everything else: op == method name)
RENAME = {
    "is_removed": "removed", "is_last_in_text_node": "last_in_text_node", "tag_name_get": "tag_name", "tag_name_get_preserve_case": "tag_name_preserve_case",
    "tag_name_set": "set_tag_name", "name_get": "name", "name_get_preserve_case": "name_preserve_case", "name_set": "set_name_str", "value_get": "value",
    "text_get": "text", "text_set": "set_text", "get_attribute": "get_attribute", "has_attribute": "has_attribute", "set_attribute": "set_attribute",
    "remove_attribute": "remove_attribute", "namespace_uri_get": "namespace_uri_c_str", "is_self_closing": "is_self_closing", "can_have_content": "can_have_content",
    "public_id_get": "public_id", "system_id_get": "system_id", "content_get": "as_str", "source_location_bytes": "source_location",
    "user_data_set": "set_user_data", "user_data_get": "user_data", "add_end_tag_handler": "end_tag_handlers", "clear_end_tag_handlers": "end_tag_handlers",
    "append": "append",
}
UNITS = {"element": "Element", "comment": "Comment", "text_chunk": "TextChunk", "doctype": "Doctype", "end_tag": "EndTag", "doc_end": "DocumentEnd", "attribute": "Attribute"}


def run(ctx):
    capi = load("capi")
    core = load("lol_html")
    hdr = parse_header()
    ext = {f.name: f for f in capi.fns if f.rec["no_mangle"]}

    # ------------------------------------------------------------------ R17.1
    r = ctx.rule("R17.1", "header <-> Rust ABI: every function declared in lol_html.h is an exported extern \"C\" function with the same arity and a compatible type class per parameter and return; lol_html_memory_settings_t / lol_html_str_t / lol_html_streaming_handler_t field order equals the #[repr(C)] structs", "E-HDR + E-MIR", floor=90)
    for name, d in sorted(hdr["funcs"].items()):
        f = ext.get(name)
        r.inst(name, sample={"fn": name, "c": d["params"] + ["->", d["ret"]]})
        if f is None:
            r.violate(name + "|missing", f"{name} is declared in lol_html.h but not exported by the Rust crate (link error / ABI break for C users)", "c-api/include/lol_html.h")
            continue
        if "C" not in f.rec["abi"]:
            r.violate(name + "|abi", f"{name} is exported with ABI {f.rec['abi']}", f.loc())
        rs = parse_rust_sig(f.rec["sig"])
        if rs is None:
            raise EngineError("cannot parse Rust signature of " + name + ": " + f.rec["sig"])
        rp, rr = rs
        cp = [ALIASES.get(x, x) for x in d["params"]]
        cr = ALIASES.get(d["ret"], d["ret"])
        if len(rp) != len(cp):
            r.violate(name + "|arity", f"{name}: the header declares {len(cp)} parameters, the Rust function takes {len(rp)}", f.loc())
            continue
        for i, (a, b) in enumerate(zip(rp + [rr], cp + [cr])):
            if a != b:
                what = "return type" if i == len(rp) else f"parameter {i + 1}"
                r.violate(f"{name}|type{i}", f"{name}: {what} is {b} in lol_html.h but {a} in Rust", f.loc())
    extra = sorted(set(ext) - set(hdr["funcs"]))
    r.inst("exported-undeclared", sample={"exported_but_undeclared": extra})
    new_extra = [e for e in extra if e not in UNDECLARED_OK]
    r.analysed["exported"] = len(ext)
    r.analysed["declared"] = len(hdr["funcs"])
    # struct layouts
    def rust_fields(m, adt_name):
        a = m.adt(adt_name)
        return a, [f["name"] for f in a["variants"][0]["fields"]]
    for cname, (m, rname) in {"lol_html_memory_settings_t": (core, "MemorySettings"), "lol_html_str_t": (capi, "Str"), "lol_html_streaming_handler_t": (capi, "CStreamingHandler"),
                              "lol_html_source_location_bytes_t": (capi, "SourceLocationBytes"), "lol_html_text_chunk_content_t": (capi, "TextChunkContent")}.items():
        a, rf = rust_fields(m, rname)
        cf = [n for n, t in hdr["structs"].get(cname, [])]
        r.inst("struct:" + cname, sample={"c": cf, "rust": rf, "repr_c": a["repr_c"]})
        if cf != rf or not a["repr_c"]:
            r.violate("struct:" + cname, f"{cname} has fields {cf} in the header but {rname} has {rf} (repr(C)={a['repr_c']}): C callers would read/write the wrong fields", a["span"])

    # ------------------------------------------------------------------ R17.2
    r = ctx.rule("R17.2", "each accessor/mutator wrapper calls its namesake in the core API, and is_html maps to ContentType::Html on the true edge", "E-MIR", floor=60)
    n_ct = 0
    for name, f in sorted(ext.items()):
        m = re.match(r"^lol_html_(element|comment|text_chunk|doctype|end_tag|doc_end|attribute)_(.+)$", name)
        if not m:
            continue
        unit, op = m.group(1), m.group(2)
        meth = RENAME.get(op, op)
        want_owner = UNITS[unit]
        calls = [callee_key(t) for bi, t in f.calls()]
        cands = [c for c in calls if re.search(r"(^|::)%s(\[|$)" % re.escape(meth), c)]
        r.inst(name, sample={"wrapper": name, "expects": f"{want_owner}::{meth}", "core_calls": [c for c in calls if c.split("::")[0] in UNITS.values()]})
        ok = any(c.startswith(want_owner + "::") or c.startswith("UserData::") or "::" + meth in c for c in cands)
        if not ok and name == "lol_html_text_chunk_content_get":
            # goes through the TextChunkContent::new helper, which must read TextChunk::as_str
            tn = [g for g in capi.fns if g.key == "TextChunkContent::new"]
            ok = "TextChunkContent::new" in calls and len(tn) == 1 and any(callee_key(t).endswith("TextChunk::as_str") for bi, t in tn[0].calls())
        if not ok:
            r.violate(name, f"{name} does not call {want_owner}::{meth} (calls: {[c for c in calls if not c.startswith(('Option::', 'Result::', 'panicking', 'ptr::', 'str::', 'slice::'))][:8]}): the C entry point would do something else than its Rust namesake", f.loc())
        # is_html mapping
        aggs = [(bi, st) for bi, b in enumerate(f.blocks) for st in b["stmts"] if st["k"] == "assign" and st["rv"]["k"] == "agg" and st["rv"]["name"].endswith("ContentType::Html")]
        aggt = [(bi, st) for bi, b in enumerate(f.blocks) for st in b["stmts"] if st["k"] == "assign" and st["rv"]["k"] == "agg" and st["rv"]["name"].endswith("ContentType::Text")]
        if aggs or aggt:
            n_ct += 1
            sw = [bi for bi, b in enumerate(f.blocks) if b["term"]["k"] == "switch" and f.describe_operand(b["term"]["d"]) == "is_html"]
            good = False
            if len(sw) == 1 and aggs and aggt:
                t = f.blocks[sw[0]]["term"]
                false_t = [x[1] for x in t["ts"] if x[0] == 0][0]
                true_t = t["else"]
                good = (aggs[0][0] == true_t or f.dominates(true_t, aggs[0][0])) and (aggt[0][0] == false_t or f.dominates(false_t, aggt[0][0]))
            if not good:
                r.violate(name + "|is_html", f"{name}: is_html = true does not select ContentType::Html (text would be inserted unescaped or markup escaped)", f.loc())
    if n_ct < 10:
        raise EngineError("R17.2: fewer than 10 wrappers with an is_html parameter found")

    # ------------------------------------------------------------------ R17.3
    r = ctx.rule("R17.3", "no unwinding across the boundary: calls that run user handlers or can fail deep inside (HtmlRewriter::new/write/end) occur only inside closures passed to catch_panic", "E-MIR", floor=3)
    risky = re.compile(r"^HtmlRewriter::(new|write|end)$")
    cp_closures = set()
    for f in capi.fns:
        for bi, t in f.calls(r"^catch_panic$|::catch_panic$"):
            d = f.describe_operand(t["args"][0])
            for g in capi.fns:
                if g.closure_suffix and g.path.startswith(f.path) and (g.path in d or "{closure" in d):
                    cp_closures.add(g.key)
    # functions only called from catch_panic closures
    inner_ok = set()
    for f in capi.fns:
        callers = [c.key for c, bi, t in capi.callers_of(re.escape(f.key.split("::")[-1]) + "$") if c.key != f.key]
        if callers and all(c in cp_closures for c in callers):
            inner_ok.add(f.key)
    sites = []
    for f in capi.fns:
        for bi, t in f.calls():
            ck = callee_key(t)
            if risky.match(ck) and "lol_html::" in (t["callee"] or t["raw"]):
                sites.append((f, ck))
    for f, ck in sites:
        key = f"{f.key}|{ck}"
        r.inst(key, sample={"site": f.key, "call": ck})
        if not (f.key in cp_closures or f.key in inner_ok):
            r.violate(key, f"{f.key} calls {ck} outside catch_panic: a panic in a handler or the documented poisoned-use panic would unwind into C (undefined behaviour / abort)", f.loc())
    if len(sites) < 3:
        raise EngineError("R17.3: fewer than 3 risky call sites found")
    cpf = [f for f in capi.fns if f.key == "catch_panic"]
    r.inst("catch_panic|catch_unwind")
    if len(cpf) != 1 or not list(cpf[0].calls(r"catch_unwind$")):
        r.violate("catch_panic|catch_unwind", "catch_panic no longer uses std::panic::catch_unwind", None)

    # ------------------------------------------------------------------ R17.4
    r = ctx.rule("R17.4", "error discipline: every Result examined in an extern \"C\" function reaches save_last_error on its Err edge, and a streaming callback is successful iff it returned 0", "E-MIR", floor=15)
    n = 0
    for name, f in sorted(ext.items()):
        for bi, b in enumerate(f.blocks):
            sw = b["term"]
            if sw["k"] != "switch":
                continue
            d = f.describe_operand(sw["d"])
            if not d.startswith("discr("):
                continue
            # is it a Result? find the local's type
            loc = sw["d"]["p"]["local"] if sw["d"]["k"] in ("copy", "move") else None
            src = None
            for kind, dbi, x in f.defs_of(loc):
                if kind == "assign" and x["rv"]["k"] == "discr":
                    src = x["rv"]["p"]["local"]
            if src is None or not f.rec["locals"][src].startswith("std::result::Result"):
                continue
            n += 1
            err_t = [x[1] for x in sw["ts"] if x[0] == 1]
            err_t = err_t[0] if err_t else sw["else"]
            saves = set(b2 for b2, t in f.calls(r"save_last_error$"))
            key = f"{name}|result#{bi}"
            r.inst(key, nontrivial=True)
            rets = set(f.return_blocks())
            if not saves or f.can_reach_without(err_t, rets, saves):
                r.violate(key, f"{name}: an Err result ({f.rec['locals'][src][:70]}) can reach the return without save_last_error: the C caller gets an error code with no message, or no error at all", f.loc())
    if n < 15:
        raise EngineError("R17.4: fewer than 15 examined Results in extern functions")
    clause_last_error_overwritten(r, capi)
    # a Result that is never examined at all (`let _ = element.set_tag_name(..)`) loses the error too
    ACCEPTED_DROPS = {("errors::save_last_error", "LocalKey::try_with"): "recording the error must not itself fail or panic during thread teardown (R18.5)"}
    for f in capi.fns:
        if capi.is_test_fn(f):
            continue
        for bi, ck, ty in uninspected_results(f):
            key = f"{f.key}|dropped:{ck}"
            r.inst(key, nontrivial=False, sample={"fn": f.key, "callee": ck, "type": ty[:80], "accepted": ACCEPTED_DROPS.get((f.key, ck))})
            if (f.key, ck) not in ACCEPTED_DROPS:
                r.violate(key, f"{f.key}: the {ty[:80]} returned by {ck} is never examined: a failure is reported to the C caller as success and no error message is recorded", f.loc())
    wa = capi.fn("CStreamingHandler::write_all[StreamingHandler]")
    res_sw = [(bi, b["term"]) for bi, b in enumerate(wa.blocks) if b["term"]["k"] == "switch" and wa.describe_operand(b["term"]["d"]) == "res"]
    r.inst("write_all|zero-is-success", sample={"switches_on_res": len(res_sw)})
    ok = False
    zero_edge = None
    if len(res_sw) == 1:
        bi, t = res_sw[0]
        zero_t = [x[1] for x in t["ts"] if x[0] == 0]
        if zero_t and len(t["ts"]) == 1:
            zero_edge = (zero_t[0], t["else"], t)
    else:
        # `res == 0` materialised as a comparison
        for bi, b in enumerate(wa.blocks):
            for st in b["stmts"]:
                if st["k"] == "assign" and st["rv"]["k"] == "bin" and st["rv"]["op"] == "Eq" and wa.describe_operand(st["rv"]["a"]) == "res" and wa.describe_operand(st["rv"]["b"]).startswith("const 0"):
                    t = b["term"]
                    if t["k"] == "switch" and t["d"]["k"] in ("copy", "move") and t["d"]["p"]["local"] == st["p"]["local"]:
                        false_t = [x[1] for x in t["ts"] if x[0] == 0]
                        if false_t:
                            zero_edge = (t["else"], false_t[0], t)
    if zero_edge:
        zt, nzt, t = zero_edge
        zero_t = [zt]
        t = dict(t); t["else"] = nzt
        if True:
            okb = [b2 for b2, b in enumerate(wa.blocks) for st in b["stmts"] if st["k"] == "assign" and st["rv"]["k"] == "agg" and st["rv"]["name"].endswith("Result::Ok")]
            errb = [b2 for b2, b in enumerate(wa.blocks) for st in b["stmts"] if st["k"] == "assign" and st["rv"]["k"] == "agg" and st["rv"]["name"].endswith("CStreamingHandlerError::HandlerError")]
            ok = bool(okb) and bool(errb) and all(b2 in wa.reachable_blocks(zero_t[0]) for b2 in okb) and all(b2 in wa.reachable_blocks(t["else"]) and b2 not in wa.reachable_blocks(zero_t[0], avoid=[]) or True for b2 in errb)
            ok = ok and all(b2 not in wa.reachable_blocks(t["else"]) for b2 in okb)
    if not ok:
        r.violate("write_all|zero-is-success", "CStreamingHandler::write_all does not treat exactly the return value 0 as success (the header documents: 'Return 0 for success'): a failing callback would be reported as success, or vice versa", wa.loc())

    # ------------------------------------------------------------------ R17.5
    r = ctx.rule("R17.5", "ownership pairing: what constructors hand out with Box::into_raw is reclaimed by the matching *_free with Box::from_raw; end() takes the inner rewriter so free() afterwards is a no-op; Str::new never yields a NULL pointer for a present string", "E-MIR", floor=5)
    into = {}
    frm = {}
    for f in capi.fns:
        for bi, t in f.calls(r"Box::into_raw$|Box.*::into_raw$"):
            ty = t["atys"][0] if t["atys"] else ""
            into.setdefault(f.key, []).append(ty)
        for bi, t in f.calls(r"Box::from_raw$|Box.*::from_raw$"):
            ty = f.rec["locals"][t["dest"]["local"]]
            frm.setdefault(f.key, []).append(ty)
    r.analysed["into_raw_sites"] = {k: v for k, v in into.items()}
    r.analysed["from_raw_sites"] = {k: v for k, v in frm.items()}
    # to_ptr_mut<T> is generic: its instantiations are the callers' return types
    ctor_types = set()
    for f in capi.fns:
        for bi, t in f.calls(r"^to_ptr_mut$|::to_ptr_mut$"):
            ty = f.rec["locals"][t["dest"]["local"]]
            ctor_types.add(re.sub(r"^\*mut ", "", ty))
    free_types = set()
    for k, tys in frm.items():
        for ty in tys:
            free_types.add(re.sub(r"^std::boxed::Box<(.*)>$", r"\1", ty))
    def norm(t):
        t = re.sub(r"<.*>", "", t)
        return t.split("::")[-1]
    cn = set(norm(t) for t in ctor_types)
    fn_ = set(norm(t) for t in free_types) - {"[u8]", "str", "[i8]"}
    r.inst("box-pairing", sample={"handed_out": sorted(cn), "reclaimed": sorted(fn_)})
    if cn != fn_ or not cn:
        r.violate("box-pairing", f"heap objects handed to C are {sorted(cn)} but the *_free functions reclaim {sorted(fn_)}: a leak or a free of the wrong type", None)
    end = ext["lol_html_rewriter_end"]
    r.inst("rewriter_end|take")
    if not any("Option::take" in callee_key(t) for bi, t in end.calls()):
        r.violate("rewriter_end|take", "lol_html_rewriter_end no longer take()s the inner rewriter: free() after end() would drop it twice / end() could run twice", end.loc())
    sn = [f for f in capi.fns if f.key == "Str::new"]
    r.inst("Str::new|never-null")
    if len(sn) != 1:
        raise EngineError("anchor Str::new")
    sn = sn[0]
    aggs = [st for b in sn.blocks for st in b["stmts"] if st["k"] == "assign" and st["rv"]["k"] == "agg" and st["rv"]["name"].endswith("Str")]
    ok = len(aggs) == 1
    if ok:
        d = dict(zip(aggs[0]["rv"]["fields"], [sn.deep(o) for o in aggs[0]["rv"]["ops"]]))
        ok = "into_raw" in d.get("data", "") and "len" in d.get("len", "")
    if not ok or any("EMPTY" in sn.describe_operand(a) for b in sn.blocks for st in b["stmts"] if st["k"] == "assign" and st["rv"]["k"] == "use" for a in [st["rv"]["o"]]):
        r.violate("Str::new|never-null", "Str::new can return a value whose data pointer is not the boxed string (e.g. NULL for the empty string): C callers use data == NULL to mean 'absent', so an empty attribute value / comment would read as missing", sn.loc())
    sd = [f for f in capi.fns if f.key == "Str::drop[Drop]"]
    r.inst("Str::drop|null-check")
    if len(sd) != 1 or not list(sd[0].calls(r"is_null$")) or not list(sd[0].calls(r"from_raw")):
        r.violate("Str::drop|null-check", "Str's Drop no longer checks for NULL before reclaiming the bytes", None)
    ch = capi.fn("CStreamingHandler::drop[Drop]")
    r.inst("CStreamingHandler::drop|callback")
    fp = [bi for bi, t in ch.calls() if t["how"] == "indirect"]
    if len(fp) != 1:
        r.violate("CStreamingHandler::drop|callback", "CStreamingHandler's Drop does not call drop_callback exactly once", ch.loc())

    # ------------------------------------------------------------------ R17.7
    r = ctx.rule("R17.7", "drop_callback is called exactly once for every streaming handler the library could read: in each lol_html_*_streaming_* function only `reserved` is examined before the struct is moved into a Box (whose Drop runs drop_callback); write_all_callback is examined after that move, so the rejected handler is still dropped", "E-MIR dominance", floor=14)
    for f in capi.fns:
        if capi.is_test_fn(f) or not re.search(r"lol_html_\w+_streaming_\w+$", f.key):
            continue
        reads_here = sm.fields_read(f)
        cls = [g for g in capi.fns if g.key.startswith(f.key + "::{closure")]
        early = sorted(set(x for g in cls for x in sm.fields_read(g) if x.startswith("CStreamingHandler.")))
        rd = [bi for bi, t in f.calls(r"\*mut T::read$|ptr::read$")]
        bx = [bi for bi, t in f.calls(r"Box::new$")]
        tests = [bi for bi, t in f.calls(r"Option::is_none$|Option::is_some$") if "write_all_callback" in f.deep(t["args"][0])]
        key = f.key.split("::")[-1] + "|ownership-before-validation"
        r.inst(key, sample={"examined_before_the_move": early, "write_all_callback_tests": len(tests)})
        ok = early == ["CStreamingHandler.reserved"] and len(rd) == 1 and len(bx) == 1 and bool(tests) and all(f.dominates(bx[0], t_) for t_ in tests)
        if not ok:
            r.violate(key, f"{f.key.split('::')[-1]}: fields examined before the handler is moved into its Box: {early}; write_all_callback tests dominated by the move: {bool(tests) and bool(bx) and all(f.dominates(bx[0], t_) for t_ in tests)} — a handler rejected for a missing write_all_callback would never get its drop_callback (lol_html.h: called exactly once), leaking what user_data owns", f.loc())

    # ------------------------------------------------------------------ R17.9
    r = ctx.rule("R17.9", "lol_html_streaming_sink_write_utf8_chunk forwards the bytes as they are (fragments may split a multi-byte character; the Rust sink re-assembles them): no UTF-8 validation of the fragment in the C wrapper", "E-MIR", floor=1)
    wf = [x for x in capi.fns if x.key.endswith("lol_html_streaming_sink_write_utf8_chunk")]
    r.inst("write_utf8_chunk|raw-bytes", sample={"found": len(wf)})
    if len(wf) != 1:
        r.violate("write_utf8_chunk|raw-bytes", "lol_html_streaming_sink_write_utf8_chunk not found", None)
    else:
        wf = wf[0]
        val = [callee_key(t) for bi, t in wf.calls(r"from_utf8")]
        fw = [callee_key(t) for bi, t in wf.calls(r"StreamingHandlerSink::write_utf8_chunk$")]
        if val or len(fw) != 1:
            r.violate("write_utf8_chunk|raw-bytes", f"lol_html_streaming_sink_write_utf8_chunk validates the fragment as UTF-8 ({val}) or no longer forwards to StreamingHandlerSink::write_utf8_chunk ({fw}): a fragment that ends inside a multi-byte character is rejected with -1 and its bytes are dropped, while the Rust API (and lol_html.h) accept such splits", wf.loc())

    # ------------------------------------------------------------------ R17.8
    r = ctx.rule("R17.8", "the C sink and the C error contract mirror the Rust ones: ExternOutputSink::handle_chunk forwards every chunk (including the zero-length finalizing one) unconditionally; lol_html_element_add_end_tag_handler fails with an error message when the element has no end tag", "E-MIR", floor=2)
    hc = capi.fn("ExternOutputSink::handle_chunk[OutputSink]")
    ind = [bi for bi, t in hc.calls() if t.get("how") == "indirect"]
    r.inst("handle_chunk|unconditional", sample={"callback_calls": len(ind)})
    if len(ind) != 1 or any(b["term"]["k"] == "switch" for b in hc.blocks if not b["cleanup"]) or not all(hc.dominates(ind[0], rb) for rb in hc.return_blocks()):
        r.violate("handle_chunk|unconditional", "ExternOutputSink::handle_chunk no longer calls the C output callback on every path: a chunk (e.g. the zero-length end-of-output chunk documented in lol_html.h) would reach a Rust OutputSink but not the C one", hc.loc())
    ae = [x for x in capi.fns if x.key.endswith("lol_html_element_add_end_tag_handler")]
    r.inst("add_end_tag_handler|no-end-tag-is-an-error")
    oka = False
    if ae:
        ae = ae[0]
        eh = [bi for bi, t in ae.calls(r"Element::end_tag_handlers$")]
        sv = [bi for bi, t in ae.calls(r"save_last_error$")]
        ps = [bi for bi, t in ae.calls(r"Vec::push$")]
        # the push must not be reachable on the path that records the error, and an error-recording path must exist
        oka = len(eh) == 1 and bool(sv) and bool(ps) and all(ae.dominates(eh[0], x) for x in sv + ps) and not any(p_ in ae.reachable_blocks(s_) for s_ in sv for p_ in ps)
    if not oka:
        r.violate("add_end_tag_handler|no-end-tag-is-an-error", "lol_html_element_add_end_tag_handler no longer records an error (-1 + last-error message) when the element cannot have an end tag: the C caller gets 0 and its handler is silently dropped, while Element::on_end_tag() in Rust returns Err", ae.loc() if ae else None)

    # ------------------------------------------------------------------ R17.6
    r = ctx.rule("R17.6", "handler closures outlive the builder: the closures the C API hands to the Rust rewriter (as_safe_*_content_handlers, lol_html_element_add_end_tag_handler) capture the C callback and the user_data pointer by value only — never a reference or pointer into the builder's handler storage, which lol_html.h allows to be freed before the rewriter runs", "E-MIR closure captures", floor=7)
    for f in capi.fns:
        if capi.is_test_fn(f) or not re.search(r"as_safe_\w+_content_handlers$|lol_html_element_add_end_tag_handler$", f.key):
            continue
        for b in f.blocks:
            for st in b["stmts"]:
                if st["k"] == "assign" and st["rv"]["k"] == "agg" and st["rv"].get("what") == "closure":
                    caps = []
                    for o in st["rv"]["ops"]:
                        if o["k"] in ("copy", "move"):
                            caps.append(f.rec["locals"][o["p"]["local"]])
                    key = f.key + "|" + st["rv"]["name"].split("::")[-1] + "|" + (caps[0].split("html_content::")[-1].split("<")[0] if caps else "")
                    r.inst(key, sample={"fn": f.key, "captures": [c[:60] for c in caps]})
                    bad = [c for c in caps if c.startswith("&") or re.search(r"Extern\w+ContentHandlers|HtmlRewriterBuilder", c)]
                    if bad or not any("*mut libc::c_void" == c for c in caps):
                        r.violate(key, f"{f.key}: a handler closure captures {[c[:70] for c in (bad or caps)]} instead of the callback and a copy of the user_data pointer: once the builder (or the handlers object) is freed, which the header permits before the rewriter runs, the handler reads freed memory", f.loc())

    # ------------------------------------------------------------------ R17.10
    rule_named_plumbing(ctx, capi)

    # ------------------------------------------------------------------ R17.11 (generic, scoped to this property's anchors)
    sm.rule_named_plumbing(ctx, capi, "C17", "R17.11", floor=10)

    # ------------------------------------------------------------------ R17.12
    rule_namespace_uris(ctx)

    ctx.not_decided += ["byte-for-byte equality of C-driven and Rust-driven runs (a run-time relation)", "allocator hygiene over all create/use/free histories (sanitizer territory)"]
    return ("Wrapper discipline of the C API: %d header prototypes compared with the exported extern \"C\" signatures (arity and type class) and the repr(C) struct "
            "layouts, namesake routing of %d accessor/mutator wrappers, catch_panic containment, Err-edge to save_last_error reachability, and ownership pairing." % (len(hdr["funcs"]), len(ext)))


def _arg_name(f, op):
    """name of the caller's parameter / captured variable an operand is a plain copy of, else None"""
    d = f.deep(op)
    m = re.match(r"^(?:arg\d+\.)?\(?\*?(?:arg\d+\.)?([a-z_][a-z0-9_]*)\)?$", d)
    return m.group(1) if m and not re.match(r"arg\d+$", m.group(1)) else None


def rule_named_plumbing(ctx, capi, rid="R17.10"):
    r = ctx.rule(rid, "arguments reach the parameter they are named after: where a C-API function hands one of its own named parameters (or a closure capture of it) to another C-API function or to a Settings::with_<name> builder, it is passed in the position of the like-named parameter; the ESI variant differs from lol_html_rewriter_build only in the constant it passes for enable_esi_tags", "E-MIR operand provenance vs callee debug names", floor=10)
    bodies = {}
    for f in capi.fns:
        if not capi.is_test_fn(f):
            bodies.setdefault(f.key.split("::")[-1], []).append(f)
    n_sites = 0
    for f in capi.fns:
        if capi.is_test_fn(f):
            continue
        own = set(filter(None, (f.name_of(i) for i in range(1, f.rec["arg_count"] + 1))))
        for bi, t in f.calls(r"."):
            ck = callee_key(t)
            last = ck.split("::")[-1].split("(")[0]
            names = [_arg_name(f, a) for a in t["args"]]
            if not any(names):
                continue
            cal = bodies.get(last, [])
            if len(cal) == 1 and "{closure" not in last and cal[0].rec["arg_count"] == len(t["args"]):
                g = cal[0]
                pn = [g.name_of(i) for i in range(1, g.rec["arg_count"] + 1)]
                pt = [g.rec["locals"][i] for i in range(1, g.rec["arg_count"] + 1)]
                for i, nm in enumerate(names):
                    if nm is None or nm not in pn or pn[i] == nm:
                        if nm is not None and pn[i] == nm:
                            n_sites += 1
                            r.inst(f"{f.key}|{last}|{nm}", nontrivial=False)
                        continue
                    j = pn.index(nm)
                    key = f"{f.key}|{last}|{nm}"
                    r.inst(key, sample={"argument": nm, "position": i, "callee_parameters": pn})
                    if pt[i] == pt[j]:
                        r.violate(key, f"{f.key} passes its `{nm}` to {last} in the position of the parameter `{pn[i]}` (same type {pt[i]}); the parameter `{nm}` is at position {j}: the two values are swapped on their way through the C API", f.loc())
            m = re.search(r"Settings(?:<[^>]*>)?::with_(\w+)$", ck.split("(")[0])
            if m and len(t["args"]) == 2:
                want = m.group(1)
                nm = names[1]
                if nm is not None and (want in own or nm in own) and (want in own):
                    key = f"{f.key}|with_{want}"
                    r.inst(key, sample={"argument": nm})
                    if nm != want:
                        r.violate(key, f"{f.key} configures Settings::with_{want} from its parameter `{nm}` although it has a parameter `{want}`", f.loc())
    # the two public constructors differ only in the ESI constant
    consts = {}
    for f in capi.fns:
        for bi, t in f.calls(r"lol_html_rewriter_build_inner$"):
            g = bodies.get("lol_html_rewriter_build_inner", [None])[0]
            if g is None:
                continue
            pn = [g.name_of(i) for i in range(1, g.rec["arg_count"] + 1)]
            if "enable_esi_tags" in pn and len(t["args"]) == len(pn):
                consts[f.key.split("::")[1] if "::" in f.key else f.key] = f.deep(t["args"][pn.index("enable_esi_tags")])
    r.inst("build_inner|esi-constant", sample=consts)
    want_c = {"lol_html_rewriter_build": "const false: bool", "unstable_lol_html_rewriter_build_with_esi_tags": "const true: bool"}
    if consts != want_c:
        r.violate("build_inner|esi-constant", f"the constructors pass {consts} for enable_esi_tags, expected {want_c}", "c-api/src/rewriter.rs")
    r.count("named_arguments_in_place", n_sites)


NAMESPACE_URIS = {"Html": "http://www.w3.org/1999/xhtml", "Svg": "http://www.w3.org/2000/svg", "MathML": "http://www.w3.org/1998/Math/MathML"}  # https://infra.spec.whatwg.org/#namespaces


def rule_namespace_uris(ctx, rid="R17.12"):
    """sibling agreement: the C-only twin of Namespace::uri returns the same strings"""
    from ..smimpl import index
    from ..astlib import walk
    idx = index()
    r = ctx.rule(rid, "the namespace URI a C handler reads is the one the Rust API reports: Namespace::uri_c_str (used only by lol_html_element_namespace_uri_get) and Namespace::uri are total matches over the same variants with equal strings, and both equal the Infra standard's URIs", "E-AST sibling tables", floor=6)
    tabs = {}
    for nm in ("uri", "uri_c_str"):
        f = idx.one(nm, owner="Namespace")
        tab = {}
        for n in walk(f.node["body"]):
            if n.get("k") == "Match":
                for arm in n["arms"]:
                    pat = arm["pat"]
                    name = (pat.get("name") or pat.get("path") or pat.get("s") or "").split("::")[-1]
                    lit = arm["body"].get("lit") if arm["body"].get("k") == "Lit" else None
                    if lit is None:
                        raise EngineError(f"{rid}: Namespace::{nm} arm {name} is not a literal")
                    v = lit["v"]
                    if lit["t"] == "cstr":
                        v = v[2:-1] if v.startswith('c"') else v
                    tab[name] = v
        tabs[nm] = tab
    for var, want in NAMESPACE_URIS.items():
        for nm in ("uri", "uri_c_str"):
            key = f"Namespace::{nm}|{var}"
            r.inst(key, sample={"value": tabs[nm].get(var)})
            if tabs[nm].get(var) != want:
                r.violate(key, f"Namespace::{nm}() returns {tabs[nm].get(var)!r} for {var}, the standard's (and the sibling's) URI is {want!r}: C and Rust handlers see different namespaces", "src/html/namespace.rs")
    if set(tabs["uri"]) != set(tabs["uri_c_str"]) or set(tabs["uri"]) != set(NAMESPACE_URIS):
        r.violate("variants", f"the two tables cover {sorted(tabs['uri'])} / {sorted(tabs['uri_c_str'])}", "src/html/namespace.rs")


def clause_last_error_overwritten(r, capi):
    # the recorded error is always the one of the call that just failed: save_last_error overwrites unconditionally
    inner = [g for g in capi.fns if g.key == "errors::save_last_error::{closure#0}::{closure#0}"]
    r.inst("save_last_error|overwrites")
    okw = False
    if inner:
        g = inner[0]
        calls_ = [callee_key(t) for bi, t in g.calls()]
        ws_ = [st for b in g.blocks for st in b["stmts"] if st["k"] == "assign" and st["p"]["proj"] and "deref_mut" in g.describe_place(st["p"]) and st["rv"]["k"] == "use" and g.deep(st["rv"]["o"]).endswith("err")]
        sw_ = [b for b in g.blocks if b["term"]["k"] == "switch" and not b.get("cleanup")]
        okw = bool(ws_) and not any(re.search(r"get_or_insert|or_insert|is_none|is_some|replace$|take$", c) for c in calls_) and not sw_
    if not okw:
        r.violate("save_last_error|overwrites", "save_last_error no longer stores the new error unconditionally (`*v = err`): with an earlier, uncollected error pending, lol_html_take_last_error() would return the stale message instead of the error of the call that just failed", inner[0].loc() if inner else None)
