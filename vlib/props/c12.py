"""C12 Fail-stop and sink protocol."""
import re
from ..mirlib import load, callee_key, short_ty, uninspected_results
from ..facts import EngineError
from . import shared_mir as sm

# Reviewed values that reach the sink without a local emptiness guard (one reason each).
NONEMPTY_TABLE = {
    ("StartTag::serialize_self", "raw"): "raw bytes of a parsed start-tag lexeme: spans at least `<x>`",
    ("EndTag::serialize_self", "raw"): "raw bytes of a parsed end-tag lexeme: spans at least `</x>`",
    ("Comment::serialize_self", "raw"): "raw bytes of a parsed comment lexeme: spans at least `<!>` / `<?>`",
    ("Doctype::into_bytes[Serialize]", "Spanned::as_slice(self.raw)"): "raw bytes of a parsed doctype lexeme: spans at least `<!doctype`",
    ("Attribute::into_bytes[Serialize]", "Bytes::deref[Deref](raw)"): "raw bytes of a parsed attribute: at least one name byte (before_attribute_name_state starts an attribute on a consumed byte)",
    ("Attribute::into_bytes[Serialize]", "BytesCow::deref[Deref](self.name)"): "Attribute::name_from_string rejects the empty name; parsed names have at least one byte",
    ("StartTag::serialize_self", "BytesCow::deref[Deref](self.name)"): "parsed names start with an ASCII letter; Element::set_tag_name rejects the empty name; StartTag::set_name documents 'must have a valid syntax'",
    ("EndTag::serialize_self", "BytesCow::deref[Deref](self.name)"): "parsed names start with an ASCII letter; EndTag::set_name documents 'must have a valid syntax'",
}


def sink_sites(mir):
    """all calls that hand bytes to the OutputSink or to a `&mut dyn FnMut(&[u8])` output handler"""
    out = []
    for f in mir.fns:
        if mir.is_test_fn(f):
            continue
        for bi, t in f.calls():
            ck = callee_key(t)
            if ck.endswith("OutputSink::handle_chunk") or ck == "OutputSink::handle_chunk":
                out.append((f, bi, t, "sink", t["args"][1]))
            elif ck in ("FnMut::call_mut", "FnOnce::call_once", "Fn::call") and len(t["atys"]) == 2 and "FnMut(&" in t["atys"][0] and t["atys"][1] in ("(&[u8],)", "(&str,)") and ("dyn" in t["atys"][0] or "impl" in t["atys"][0]):
                # `&mut dyn FnMut(&[u8])` output handlers and the generic `impl FnMut(&str)` handlers feeding them
                out.append((f, bi, t, "handler", t["args"][1]))
    return out


def unwrap_tuple(f, op):
    """FnMut::call_mut takes its arguments as a tuple aggregate; return the single element operand"""
    if op["k"] in ("copy", "move") and not op["p"]["proj"]:
        ds = f.defs_of(op["p"]["local"])
        if len(ds) == 1 and ds[0][0] == "assign" and ds[0][2]["rv"]["k"] == "agg" and ds[0][2]["rv"]["what"] == "tuple" and len(ds[0][2]["rv"]["ops"]) == 1:
            return ds[0][2]["rv"]["ops"][0]
    return op


def root_operand(f, op):
    """follow copies / casts / reborrows (`&*x`) of single-definition temporaries to a constant or an argument"""
    for _ in range(16):
        if op["k"] == "const":
            return ("const", op)
        if op["k"] not in ("copy", "move"):
            return ("other", op)
        pl = op["p"]
        if any(e != "*" for e in pl["proj"]):
            return ("place", op)
        loc = pl["local"]
        if 1 <= loc <= f.rec["arg_count"]:
            return ("arg", loc)
        ds = f.defs_of(loc)
        if len(ds) != 1 or ds[0][0] != "assign":
            return ("other", op)
        rv = ds[0][2]["rv"]
        if rv["k"] in ("use", "cast"):
            op = rv["o"]
        elif rv["k"] == "ref" and all(e == "*" for e in rv["p"]["proj"]):
            op = {"k": "copy", "p": {"local": rv["p"]["local"], "proj": []}}
        else:
            return ("other", op)
    return ("other", op)


def const_len(f, op, depth=0):
    """length of a constant byte-array / str operand (minimum over all definitions of a
    multiply-defined temporary, e.g. the result of a `match` of literals), or None"""
    kind, x = root_operand(f, op)
    if kind == "const":
        m = re.search(r"&\[u8; (\d+)\]", x["ty"])
        if m:
            return int(m.group(1))
        if x["ty"].replace("'static ", "") == "&str":
            m = re.match(r'^"(.*)"$', x["v"], re.S)
            if m:
                return len(m.group(1))
        return None
    if kind == "other" and depth < 3 and x["k"] in ("copy", "move") and not x["p"]["proj"]:
        ds = f.defs_of(x["p"]["local"])
        def as_op(rv):
            if rv["k"] in ("use", "cast"):
                return rv["o"]
            if rv["k"] == "ref" and all(e == "*" for e in rv["p"]["proj"]):
                return {"k": "copy", "p": {"local": rv["p"]["local"], "proj": []}}
            return None
        if len(ds) > 1 and all(d[0] == "assign" and as_op(d[2]["rv"]) is not None for d in ds):
            ls = [const_len(f, as_op(d[2]["rv"]), depth + 1) for d in ds]
            if all(l is not None for l in ls):
                return min(ls)
    return None


def guard_nonempty(f, bi, desc):
    """is block bi dominated by the 'not empty' edge of an emptiness test on the same value?"""
    cands = {desc}
    m = re.match(r"^str::as_bytes\((.*)\)$", desc)
    if m:
        cands.add(m.group(1))
    m = re.match(r"^(Bytes|BytesCow)::deref\[Deref\]\((.*)\)$", desc)
    if m:
        cands.add(m.group(2))
    for ci, t in f.calls(r"::is_empty$"):
        a = f.describe_operand(t["args"][0])
        a2 = re.sub(r"^(Bytes|BytesCow)::deref\[Deref\]\((.*)\)$", r"\2", a)
        if a in cands or a2 in cands:
            se = f.switch_edges(ci)
            if se and f.dominates(se[0], bi) and se[0] != se[1]:
                return "dominated by the false edge of is_empty(%s)" % a
    # `written > 0` style guard on a RangeTo{written} index
    m = re.search(r"RangeTo\{([a-z_0-9]+)\}", desc)
    if m:
        var = m.group(1)
        for b_i, b in enumerate(f.blocks):
            for st in b["stmts"]:
                if st["k"] == "assign" and st["rv"]["k"] == "bin" and st["rv"]["op"] == "Gt":
                    if f.describe_operand(st["rv"]["a"]) == var and f.describe_operand(st["rv"]["b"]).startswith("const 0"):
                        sw = b["term"]
                        if sw["k"] == "switch" and sw["d"]["k"] in ("copy", "move") and sw["d"]["p"]["local"] == st["p"]["local"]:
                            true_s = sw["else"]
                            if f.dominates(true_s, bi):
                                return "dominated by the true edge of %s > 0" % var
    return None


def run(ctx):
    mir = load()

    # ------------------------------------------------------------------ R12.1
    r = ctx.rule("R12.1", "encoding first: Dispatcher::new tells the sink the encoding and emits nothing; Dispatcher.encoding is written only in new and flush_encoding_change, where set_encoding(next) follows the write", "E-MIR", floor=3)
    new = mir.fn("Dispatcher::new")
    se = [bi for bi, t in new.calls(r"OutputSink::set_encoding$")]
    hc = [bi for bi, t in new.calls(r"handle_chunk")]
    r.inst("new|set_encoding", sample={"set_encoding_calls": len(se), "handle_chunk_calls": len(hc)})
    if len(se) != 1 or not new.dominates(se[0], new.return_blocks()[0]):
        r.violate("new|set_encoding", "Dispatcher::new does not call OutputSink::set_encoding on every path", new.loc())
    if hc:
        r.violate("new|emits", "Dispatcher::new emits a chunk before the sink knows the encoding", new.loc())
    writers = sorted(set(f.key for f, bi, st in mir.field_writes("Dispatcher", "encoding") if not mir.is_test_fn(f)))
    aggs = sorted(set(f.key for f in mir.fns if not mir.is_test_fn(f) for b in f.blocks for st in b["stmts"] if st["k"] == "assign" and st["rv"]["k"] == "agg" and st["rv"]["name"].endswith("::Dispatcher")))
    r.inst("encoding|writers", sample={"field_writes": writers, "constructors": aggs})
    if writers != ["Dispatcher::flush_encoding_change"] or aggs != ["Dispatcher::new"]:
        r.violate("encoding|writers", f"Dispatcher.encoding is written in {writers} and constructed in {aggs}; expected only flush_encoding_change / new", None)
    fec = mir.fn("Dispatcher::flush_encoding_change")
    wr = [bi for f, bi, st in mir.field_writes("Dispatcher", "encoding") if f is fec]
    se = [bi for bi, t in fec.calls(r"OutputSink::set_encoding$")]
    r.inst("flush_encoding_change|notify")
    if not wr or not se or not all(any(fec.dominates(w, s) for s in se) for w in wr):
        r.violate("flush_encoding_change|notify", "flush_encoding_change changes the encoding without notifying the sink (set_encoding) afterwards", fec.loc())
    else:
        # same value
        wv = [fec.describe_operand(st["rv"]["o"]) for f, bi, st in mir.field_writes("Dispatcher", "encoding") if f is fec and st["rv"]["k"] == "use"]
        sv = [fec.describe_operand(fec.blocks[s]["term"]["args"][1]) for s in se]
        if set(wv) != set(sv):
            r.violate("flush_encoding_change|value", f"sink is told {sv} but the dispatcher switches to {wv}", fec.loc())
    callers = sorted(set(f.key for f, bi, t in mir.callers_of(r"OutputSink::set_encoding$") if not mir.is_test_fn(f)))
    r.inst("set_encoding|callers", sample={"callers": callers})
    if callers != ["Dispatcher::flush_encoding_change", "Dispatcher::new"]:
        r.violate("set_encoding|callers", f"OutputSink::set_encoding is called from {callers}", None)

    # ------------------------------------------------------------------ R12.2
    r = ctx.rule("R12.2", "the zero-length chunk is unique and last (DispatcherDelegate::finish, after handle_end succeeded, no sink call after it); every other value reaching the sink or an output handler is provably non-empty", "E-MIR", floor=30)
    sites = sink_sites(mir)
    r.count("sink_call_sites", sum(1 for s in sites if s[3] == "sink"))
    r.count("output_handler_call_sites", sum(1 for s in sites if s[3] == "handler"))
    empties = []
    ordinals = {}
    for f, bi, t, kind, arg in sites:
        a = unwrap_tuple(f, arg)
        desc = f.describe_operand(a)
        n = ordinals.get((f.key, desc), 0)
        ordinals[(f.key, desc)] = n + 1
        key = f"{f.key}|{desc}" + (f"#{n}" if n else "")
        cl = const_len(f, a)
        proof = None
        if cl is not None:
            if cl == 0:
                empties.append((f, bi, key))
                r.inst(key, sample={"site": f.key, "value": desc, "proof": "the constant empty chunk"})
                continue
            proof = f"constant of {cl} bytes"
        if proof is None:
            proof = guard_nonempty(f, bi, desc)
        argnames = [f.rec["names"].get(str(i)) for i in range(1, f.rec["arg_count"] + 1)]
        inner = re.sub(r"^str::as_bytes\((.*)\)$", r"\1", desc)
        if proof is None and f.closure_suffix and (root_operand(f, a)[0] == "arg" or inner in argnames):
            proof = "forwarding closure: the value is the argument of an output handler call that is itself a checked site"
        if proof is None and (f.key, desc) in NONEMPTY_TABLE:
            proof = "reviewed: " + NONEMPTY_TABLE[(f.key, desc)]
        r.inst(key, sample={"site": f.key, "value": desc, "proof": proof})
        if proof is None:
            r.violate(key, f"{f.key} hands `{desc}` to the {'sink' if kind == 'sink' else 'output handler'} without a non-emptiness guard: a zero-length chunk mid-stream signals end of output to the sink", f"{f.loc()} (line {t['l']})")
    fin = mir.fn("DispatcherDelegate::finish")
    r.inst("empty-chunk|unique", sample={"empty_sites": [k for _, _, k in empties]})
    if len(empties) != 1 or empties[0][0] is not fin:
        r.violate("empty-chunk|unique", f"the constant empty chunk is emitted at {[k for _, _, k in empties]}; expected exactly once, in DispatcherDelegate::finish", fin.loc())
    else:
        ebi = empties[0][1]
        he = [bi for bi, t in fin.calls(r"handle_end")]
        r.inst("empty-chunk|after-handle_end")
        if not he or not all(fin.dominates(h, ebi) for h in he):
            r.violate("empty-chunk|after-handle_end", "the final empty chunk is not preceded by handle_end", fin.loc())
        # on the Err edge of handle_end the empty chunk must not be reachable without passing the Ok edge: check that an Err return is reachable from handle_end avoiding the empty chunk
        errs = fin.err_return_blocks()
        rets = fin.return_blocks()
        if he and not fin.can_reach_without(he[0], set(rets), {ebi}):
            r.violate("empty-chunk|err-edge", "the empty chunk is emitted even when handle_end failed", fin.loc())
        after = fin.reachable_blocks(fin.succs()[ebi][0]) if fin.succs()[ebi] else set()
        later = [bi for bi, t in fin.calls(r"handle_chunk|call_mut|DocumentEnd|flush_remaining_input") if bi in after]
        r.inst("empty-chunk|last")
        if later:
            r.violate("empty-chunk|last", "DispatcherDelegate::finish emits something after the final empty chunk", fin.loc())
    callers = sorted(set(f.key for f, bi, t in mir.callers_of(r"DispatcherDelegate::finish$") if not mir.is_test_fn(f)))
    callers2 = sorted(set(f.key for f, bi, t in mir.callers_of(r"Dispatcher::finish$") if not mir.is_test_fn(f)))
    r.inst("finish|callers", sample={"delegate_finish": callers, "dispatcher_finish": callers2})
    if callers != ["Dispatcher::finish"] or callers2 != ["TransformStream::end"]:
        r.violate("finish|callers", f"finish is called from {callers} / {callers2}; the end-of-output chunk must only come from TransformStream::end", None)
    # positive control: the rule must not accept an unguarded non-constant value
    r.control(guard_nonempty(fin, 0, "no_such_value") is None and ("X::y", "z") not in NONEMPTY_TABLE, "an unguarded value must have no proof")

    # ------------------------------------------------------------------ R12.3
    r = ctx.rule("R12.3", "poisoning: every pub method of HtmlRewriter reaching TransformStream::{write,end} asserts !poisoned before the call and sets poisoned on every path on which the call returned Err", "E-MIR", floor=2)
    n = 0
    for f in mir.fns:
        if f.owner != "HtmlRewriter" or mir.is_test_fn(f) or f.closure_suffix:
            continue
        for ci, t in f.calls(r"TransformStream::(write|end)$"):
            n += 1
            key = f"{f.key}|{callee_key(t)}"
            r.inst(key, sample={"method": f.key, "calls": callee_key(t)})
            # (1) dominated by a switch on self.poisoned with a diverging (panic) branch
            ok_assert = False
            for bi, b in enumerate(f.blocks):
                sw = b["term"]
                if sw["k"] != "switch":
                    continue
                d = f.describe_operand(sw["d"])
                if not d.endswith(".poisoned"):
                    continue
                if not f.dominates(bi, ci):
                    continue
                for s in f.succs()[bi]:
                    # diverging successor: cannot reach a return
                    if not f.can_reach_without(s, set(f.return_blocks()), set()) and not f.dominates(s, ci):
                        other = [x for x in f.succs()[bi] if x != s]
                        if other and all(f.dominates(o, ci) or o == ci for o in other):
                            # the panic must be on the poisoned == true side
                            false_t = [x[1] for x in sw["ts"] if x[0] == 0]
                            if false_t and s != false_t[0]:
                                ok_assert = True
            # every normal return of the method passes the poison test: no early `return Ok(())` in front of it
            psw = [bi for bi, b in enumerate(f.blocks) if b["term"]["k"] == "switch" and f.describe_operand(b["term"]["d"]).endswith(".poisoned")]
            if psw and not all(any(f.dominates(p_, rb_) for p_ in psw) for rb_ in f.return_blocks()):
                r.violate(key + "|assert-on-every-path", f"{f.key} can return normally without testing self.poisoned (an early return in front of the guard): after a fatal error such a call reports Ok(()) instead of panicking, so the caller cannot tell that the rewriter is dead", f.loc())
            if not ok_assert:
                r.violate(key + "|assert", f"{f.key}: the call into the transform stream is not guarded by a panic on self.poisoned (use after a fatal error would produce output)", f.loc())
            # (2) Err => poisoned = true
            res = t["dest"]["local"]
            poison_blocks = set(bi for f2, bi, st in mir.field_writes("HtmlRewriter", "poisoned") if f2 is f and st["rv"]["k"] == "use" and f.describe_operand(st["rv"]["o"]).startswith("const true"))
            err_entries = []
            for bi, tt in f.calls(r"Result::is_err$"):
                if f.describe_operand(tt["args"][0]) in (f.describe_local(res), "res") or f.describe_operand(tt["args"][0]) == f.describe_local(res):
                    se = f.switch_edges(bi)
                    if se:
                        err_entries.append(se[1])
            for bi, b in enumerate(f.blocks):
                sw = b["term"]
                if sw["k"] == "switch" and sw["d"]["k"] in ("copy", "move"):
                    dl = sw["d"]["p"]["local"]
                    for kind, dbi, st in f.defs_of(dl):
                        if kind == "assign" and st["rv"]["k"] == "discr" and st["rv"]["p"]["local"] == res and not st["rv"]["p"]["proj"]:
                            for v, tgt in sw["ts"]:
                                if v == 1:
                                    err_entries.append(tgt)
                            if not any(v == 1 for v, _ in sw["ts"]):
                                err_entries.append(sw["else"])
            rets = set(f.return_blocks())
            if not err_entries:
                # unconditional poisoning is fine too
                if not poison_blocks or f.can_reach_without(t["t"], rets, poison_blocks):
                    r.violate(key + "|poison", f"{f.key}: the result of the stream call is never examined to set poisoned", f.loc())
            for e in err_entries:
                if e in poison_blocks:
                    continue
                if f.can_reach_without(e, rets, poison_blocks):
                    r.violate(key + "|poison", f"{f.key}: some Err result of the stream call does not set poisoned = true (a later call would run on a broken rewriter)", f.loc())
                    break
    if n < 2:
        raise EngineError("R12.3: fewer than 2 HtmlRewriter methods reach TransformStream::{write,end}")
    other = sorted(set(f.key for f, bi, t in mir.callers_of(r"TransformStream::(write|end)$") if not mir.is_test_fn(f) and f.owner != "HtmlRewriter"))
    r.inst("stream|other-callers", sample={"callers": other})
    if other:
        r.violate("stream|other-callers", f"TransformStream::write/end is reachable without the poisoning guard from {other}", None)

    # ------------------------------------------------------------------ R12.4
    r = ctx.rule("R12.4", "nothing emits after an error: no Drop impl of the crate reaches a sink call", "E-MIR", floor=1)
    drops = [f for f in mir.fns if f.trait == "Drop" and f.name == "drop" and not mir.is_test_fn(f)]
    sink_fns = set(f.key for f, bi, t, k, a in sites)
    # transitive callees inside the crate
    bykey = {}
    for f in mir.fns:
        bykey.setdefault(f.key, []).append(f)
    for d in drops:
        seen = set()
        todo = [d]
        hit = None
        while todo and not hit:
            x = todo.pop()
            if x.key in seen:
                continue
            seen.add(x.key)
            if x.key in sink_fns:
                hit = x.key
                break
            for bi, t in x.calls():
                for g in bykey.get(callee_key(t), []):
                    todo.append(g)
        r.inst(d.key, sample={"drop_impl": d.key, "callees_explored": len(seen)})
        if hit:
            r.violate(d.key, f"{d.key} reaches a sink call through {hit}: dropping a failed rewriter would emit output", d.loc())

    # ------------------------------------------------------------------ R12.5
    r = ctx.rule("R12.5", "errors surface: no Result carrying one of the crate's error types is discarded without being examined (`let _ = fallible()` / a bare call statement); every fallible call made while rewriting is either examined or propagated", "E-MIR", floor=200)
    CRATE_ERR = re.compile(r"RewritingError|MemoryLimitExceededError|ParsingAmbiguityError|DispatcherError|ActionError|TagNameError|AttributeNameError|CommentTextError|Utf8Error|SelectorError|HasReplacementsError|Box<dyn std::error::Error")
    ACCEPTED = {
        ("rewriter::handler_adjust_charset_on_meta_tag::{closure#0}", "OnceLock::set"): "write-once cell: a second <meta charset> is ignored by design (R13.2)",
        ("Attributes::as_mut_vec", "OnceCell::set"): "cell known to be empty (checked on the line above)",
    }
    nres = 0
    for f in mir.fns:
        if mir.is_test_fn(f):
            continue
        for bi, t in f.calls():
            if not t["dest"]["proj"] and f.rec["locals"][t["dest"]["local"]].startswith("std::result::Result<"):
                nres += 1
        for bi, ck, ty in uninspected_results(f):
            key = f"{f.key}|dropped:{ck}"
            acc = ACCEPTED.get((f.key, ck))
            r.inst(key, sample={"fn": f.key, "callee": ck, "type": ty[:90], "accepted": acc})
            if CRATE_ERR.search(ty):
                r.violate(key, f"{f.key}: the {ty[:90]} returned by {ck} is never examined; an error would be swallowed and the rewriter would carry on emitting output after a failure", f.loc())
    r.count("result_producing_calls_examined", nres)
    for _ in range(nres):
        r.instances += 1

    # ------------------------------------------------------------------ R12.6
    r = ctx.rule("R12.6", "the first handler error stops the dispatch: in every HandlerVec iteration (and in the token dispatch loops built on them) no further handler call is reachable from a handler call except through the Ok edge of its `?`", "E-MIR reachability with the Ok edge removed", floor=3)
    n66 = 0
    for f in mir.fns:
        if mir.is_test_fn(f) or not (f.key.startswith("HandlerVec::") or f.key.startswith("ContentHandlersDispatcher::") or f.key.startswith("HtmlRewriteController::")):
            continue
        cbs = [bi for bi, t in f.calls(r"Fn(Mut|Once)?::call(_mut|_once)?$")]
        if not cbs:
            continue
        for cb in cbs:
            key = f"{f.key}|handler-call"
            n66 += 1
            # the `?` on this call's result: switch on discr(Result::branch(<this call>)); value 0 = Continue (Ok)
            ok_edges = []
            for sb, b in enumerate(f.blocks):
                t = b["term"]
                if t["k"] == "switch" and "branch[Try](" in f.deep(t["d"]) and "call" in f.deep(t["d"]) and f.dominates(cb, sb):
                    ok_edges += [(sb, x[1]) for x in t["ts"] if x[0] == 0]
            res_ty = f.rec["locals"][f.blocks[cb]["term"]["dest"]["local"]]
            r.inst(key, sample={"fn": f.key, "result_type": res_ty[:60], "ok_edges": len(ok_edges)})
            if not res_ty.startswith("std::result::Result"):
                continue          # infallible callback (e.g. match handler): nothing to stop on
            nxt = f.blocks[cb]["term"]["t"]
            reach = f.reachable_without_edges(nxt, removed_blocks=(), removed_edges=ok_edges)
            again = [c for c in cbs if c in reach]
            if again:
                r.violate(key, f"{f.key}: after a handler returned Err another handler call is still reachable (the remaining handlers run, and may emit output, before the error is returned)", f.loc())
    r.count("handler_call_sites", n66)

    rule_failed_token_not_emitted(ctx, mir)

    # ------------------------------------------------------------------ R12.7 (shared with C11 R11.1)
    # after an error for which graceful bail-out is off nothing more reaches the sink: no bail-out handler / flush on the false edge
    from .c11 import rule_bail_out_sites
    rule_bail_out_sites(ctx, mir, rid="R12.7")

    # ------------------------------------------------------------------ R12.9 (= R11.4)
    from .c11 import rule_flag_independence
    from ..smimpl import index as _index12
    rule_flag_independence(ctx, _index12(), mir, rid="R12.9")

    # ------------------------------------------------------------------ R12.10 (generic, scoped to this property's anchors)
    sm.rule_named_plumbing(ctx, mir, "C12", "R12.10", floor=30)

    # ------------------------------------------------------------------ R12.11 (= R10.11)
    from .c10 import rule_errors_not_swallowed
    rule_errors_not_swallowed(ctx, mir, rid="R12.11")

    ctx.not_decided += ["the prefix relation between the output of a failed run and of the complete run (run-time)"]
    ctx.assumptions += ["values listed in the reviewed non-emptiness table (lexeme raw bytes, validated names) are non-empty for the stated reasons"]
    return ("Who-may-call and dominance rules over every call that hands bytes to the OutputSink or to an output handler "
            "(%d sites), over Dispatcher::new/flush_encoding_change/finish and the HtmlRewriter poisoning guard; decides the protocol's "
            "structural conditions on every CFG path, not the prefix relation between two runs." % len(sites))


def rule_failed_token_not_emitted(ctx, mir, rid="R12.8"):
    # ------------------------------------------------------------------ R12.8
    r = ctx.rule(rid, "a token whose handlers failed is not emitted: in DispatcherDelegate::token_produced / text_token_produced the serialisation (into_bytes) is reachable from the handle_token call only through the Ok edge of its `?`", "E-MIR reachability with the Ok edge removed", floor=2)
    for nm in ("DispatcherDelegate::token_produced", "DispatcherDelegate::text_token_produced"):
        f = mir.fn(nm)
        ht = [bi for bi, t in f.calls(r"handle_token$")]
        ib = [bi for bi, t in f.calls(r"into_bytes")]
        r.inst(nm, sample={"handle_token": len(ht), "into_bytes": len(ib)})
        if len(ht) != 1 or len(ib) != 1:
            r.violate(nm, f"{nm}: expected one handle_token and one into_bytes call", f.loc())
            continue
        ok_edges = []
        for sb, b in enumerate(f.blocks):
            t = b["term"]
            if t["k"] == "switch" and "branch[Try](" in f.deep(t["d"]) and "handle_token(" in f.deep(t["d"]) and f.dominates(ht[0], sb):
                ok_edges += [(sb, x[1]) for x in t["ts"] if x[0] == 0]
        reach = f.reachable_without_edges(f.blocks[ht[0]]["term"]["t"], removed_blocks=(), removed_edges=ok_edges)
        if not ok_edges or ib[0] in reach:
            r.violate(nm, f"{nm} serialises the token on a path on which its handlers returned Err (the `?` on handle_token no longer precedes into_bytes): the failed token's bytes are emitted after the failure point, so the output of a failed run is not a prefix of the complete run", f.loc())
