"""C03 Strict-mode tokenization equals WHATWG's; ambiguity refused — automaton + table rules."""
import importlib.util
import os
import re
from ..smgraph import Graph, automaton
from ..sm import NONE, fmt_mask
from ..smimpl import index, impl_methods, field_effects
from ..astlib import walk
from ..tagsem import Interp, tag_variants, or_chain_tags, OTHER, EMPTY, Sym
from ..mirlib import load, callee_key, guarding_branches
from ..facts import EngineError, VERIF
from . import shared, shared_mir as sm


def spec_tables():
    p = os.path.join(VERIF, "spec", "html_tables.py")
    sp = importlib.util.spec_from_file_location("html_tables", p)
    m = importlib.util.module_from_spec(sp)
    sp.loader.exec_module(m)
    return m


def lc(tagvariant):
    return tagvariant.lower()


def run(ctx):
    aut = automaton()
    g = Graph(aut)
    idx = index()
    mir = load()
    T = spec_tables()
    tags = tag_variants(idx)

    # ------------------------------------------------------------------ R03.1
    from ..product import Explorer
    rule_product(ctx, g, aut)

    # ------------------------------------------------------------------ R03.5
    r = ctx.rule("R03.5", "a tag emission is always followed by the dynamic text state (emit_tag may have changed the text type through tree-builder feedback); a literal transition into a text state happens only where the text type provably equals that state's type", "E-SM dataflow", floor=12)
    type_of_state = {v: k for k, v in aut.text_state_map.items()}
    ALLT = frozenset(aut.text_state_map.keys())
    facts = {n: set() for n in g.nodes}
    for st, ty in type_of_state.items():
        facts[st].add(ty)
    # what each action does to last_text_type, from both implementors
    setters = {}
    for owner in ("Lexer", "TagScanner"):
        ms = impl_methods(idx, owner, "StateMachineActions")
        for nm, f in ms.items():
            for n in walk(f.node["body"]):
                if n.get("k") == "MethodCall" and n["method"] == "set_last_text_type":
                    a = n["args"][0]
                    val = a["path"].split("::")[-1] if a.get("k") == "Path" and "::" in a["path"] else "ANY"
                    setters.setdefault(nm, set()).add(val)
    r.analysed["text_type_setters"] = {k: sorted(v) for k, v in setters.items()}
    if "emit_tag" not in setters or "enter_cdata" not in setters or "leave_cdata" not in setters:
        raise EngineError("R03.5: actions that set last_text_type not found (anchor moved)")

    def xfer(types, names):
        cur = set(types)
        for a in names:
            if a in setters:
                vs = setters[a]
                if "ANY" in vs or len(vs) > 1:
                    cur = set(ALLT)
                else:
                    cur = set(vs)
        return cur
    changed = True
    while changed:
        changed = False
        for e in g.edges():
            if e.dst is None or not facts[e.src]:
                continue
            out = xfer(facts[e.src], e.names())
            if e.kind == "dyn":
                ty = type_of_state[e.dst]
                if ty in out and ty not in facts[e.dst]:
                    facts[e.dst].add(ty)
                    changed = True
            else:
                if e.kind == "goto" and e.dst in type_of_state:
                    # a literal transition into a text state is itself checked below; downstream of it assume
                    # the conforming type only, so one defect is reported once and not at every later state
                    out = out & {type_of_state[e.dst]}
                if not out <= facts[e.dst]:
                    facts[e.dst] |= out
                    changed = True
    seen = set()
    for e in g.edges():
        if e.leaf is None:
            continue
        lid = id(e.leaf)
        nm = e.names()
        if "emit_tag" in nm and lid not in seen:
            seen.add(lid)
            key = "%s|%s|emit_tag" % (e.state, fmt_mask(e.c0))
            r.inst(key, sample={"leaf": e.describe()})
            if e.kind != "dyn":
                r.violate(key, "a tag is emitted but the next state is hard-coded instead of `--> dyn next_text_parsing_state`: after <script>/<style>/<textarea>... markup would be tokenized as Data (or vice versa): " + e.describe(), shared.state_loc(e.state))
        elif e.kind == "goto" and e.dst in type_of_state and lid not in seen:
            seen.add(lid)
            key = "%s|%s|-->%s" % (e.state, fmt_mask(e.c0), e.dst)
            out = xfer(facts[e.src], nm)
            r.inst(key, sample={"leaf": e.describe(), "possible_text_types": sorted(out)})
            if not out <= {type_of_state[e.dst]}:
                r.violate(key, f"literal transition into {e.dst} although the text type may be {sorted(out - {type_of_state[e.dst]})} here: {e.describe()}", shared.state_loc(e.state))
        elif e.kind == "dyn" and "emit_tag" not in nm and lid not in seen:
            seen.add(lid)
            key = "%s|%s|dyn-without-emit" % (e.state, fmt_mask(e.c0))
            r.inst(key)
    rule_tag_tables(ctx, idx, T)

    rule_ambiguity_guard(ctx, idx, mir, T)

    # ------------------------------------------------------------------ R03.4
    r = ctx.rule("R03.4", "'appropriate end tag': both implementations compare the end tag's hash with last_start_tag_name_hash, which is recorded only for start tags", "E-MIR", floor=4)
    for owner in ("Lexer", "TagScanner"):
        f = mir.fn(f"{owner}::is_appropriate_end_tag[StateMachineConditions]")
        reads = sm.fields_read(f)
        r.inst(f"{owner}|compare", sample={"reads": sorted(reads)})
        if f"{owner}.last_start_tag_name_hash" not in reads:
            r.violate(f"{owner}|compare", f"{owner}::is_appropriate_end_tag does not consult last_start_tag_name_hash", f.loc())
        eqs = [callee_key(t) for bi, t in f.calls(r"eq\[PartialEq\]|::eq$")]
        if not eqs:
            r.violate(f"{owner}|compare-eq", f"{owner}::is_appropriate_end_tag performs no equality comparison", f.loc())
    allowed = {
        "Lexer": {"Lexer::emit_tag[StateMachineActions]", "Lexer::set_last_start_tag_name_hash[StateMachine]"},
        "TagScanner": {"TagScanner::emit_tag_hint", "TagScanner::set_last_start_tag_name_hash[StateMachine]"},
    }
    for owner in ("Lexer", "TagScanner"):
        ws = [(f, bi, st) for f, bi, st in mir.field_writes(owner, "last_start_tag_name_hash") if not mir.is_test_fn(f)]
        names = set(f.key for f, _, _ in ws)
        r.inst(f"{owner}|writers", sample={"writers": sorted(names)})
        if names != allowed[owner]:
            r.violate(f"{owner}|writers", f"{owner}.last_start_tag_name_hash is written in {sorted(names)}, expected {sorted(allowed[owner])}", None)
    # Lexer::emit_tag: the write is control dependent on the StartTag variant
    f = mir.fn("Lexer::emit_tag[StateMachineActions]")
    ws = [bi for f2, bi, st in mir.field_writes("Lexer", "last_start_tag_name_hash") if f2 is f]
    r.inst("Lexer::emit_tag|start-only")
    ok = False
    for bi, b in enumerate(f.blocks):
        sw = b["term"]
        if sw["k"] == "switch" and "discr(" in f.describe_operand(sw["d"]) and "token_outline" in f.describe_operand(sw["d"]):
            start_t = [x[1] for x in sw["ts"] if x[0] == 0]
            if start_t and all(f.dominates(start_t[0], w) for w in ws) and ws:
                ok = True
    if not ok:
        r.violate("Lexer::emit_tag|start-only", "Lexer::emit_tag records last_start_tag_name_hash for end tags too (a later end tag in RCDATA/RAWTEXT/script would be matched against the wrong name)", f.loc())
    f = mir.fn("TagScanner::emit_tag_hint")
    ws = [bi for f2, bi, st in mir.field_writes("TagScanner", "last_start_tag_name_hash") if f2 is f]
    r.inst("TagScanner::emit_tag_hint|start-only")
    ok = False
    for bi, b in enumerate(f.blocks):
        sw = b["term"]
        if sw["k"] == "switch" and f.describe_operand(sw["d"]) == "is_in_end_tag":
            false_t = [x[1] for x in sw["ts"] if x[0] == 0]
            if false_t and ws and all(f.dominates(false_t[0], w) for w in ws):
                ok = True
    if not ok:
        r.violate("TagScanner::emit_tag_hint|start-only", "TagScanner::emit_tag_hint records last_start_tag_name_hash outside the start-tag branch", f.loc())
    callers = sorted(set(f2.key for f2, bi, t in mir.callers_of(r"set_last_start_tag_name_hash") if not mir.is_test_fn(f2)))
    r.inst("setter|callers", sample={"callers": callers})
    if callers != ["StateMachine::continue_from_bookmark"]:
        r.violate("setter|callers", f"set_last_start_tag_name_hash is called from {callers}; only the bookmark restore may set it", None)

    # ------------------------------------------------------------------ R03.6
    r = ctx.rule("R03.6", "the lexer's actions have the meaning the product exploration assumes: every finish_*/mark action records the half-open range [token_part_start, pos) in its own token part, start_token_part records pos(), flags are set to true, attributes are created/pushed for start tags only", "E-MIR shape table", floor=12)
    RANGE = re.compile(r"^(base::range::)?Range\{self\.token_part_start, \(self\.next_pos Sub(WithOverflow)? const 1_usize: usize\)(\.0)?\}$")
    def writes(fn):
        f = mir.fn(f"Lexer::{fn}[StateMachineActions]")
        out = []
        for b in f.blocks:
            for st in b["stmts"]:
                if st["k"] == "assign" and st["p"]["proj"]:
                    tgt = f._root_place_p(st["p"])
                    parts = [(e["of"].split("::")[-1] + "." + e["f"]) if isinstance(e, dict) and "f" in e else (e.get("variant") if isinstance(e, dict) else e) for e in tgt[1]]
                    rv = st["rv"]
                    if rv["k"] == "use":
                        d = f.deep(rv["o"])
                    elif rv["k"] == "agg":
                        d = (rv["name"] or rv["what"]) + "{" + ", ".join(f.deep(o) for o in rv["ops"]) + "}"
                    elif rv["k"] == "bin":
                        d = "(%s %s %s)" % (f.deep(rv["a"]), rv["op"], f.deep(rv["b"]))     # unchecked arithmetic (release profile)
                    else:
                        d = rv["k"]
                    fields = [x for x in parts if isinstance(x, str) and "." in x]
                    out.append((f.name_of(tgt[0]) or str(tgt[0]), fields, d))
        return f, out
    SEM = {
        "finish_tag_name": [("name", None, "RANGE")],
        "finish_attr_name": [("AttributeOutline.name", None, "RANGE")],
        "finish_attr_value": [("AttributeOutline.value", None, "RANGE")],
        "mark_comment_text_end": [("Comment.0", None, "RANGE")],
        "finish_doctype_name": [("DoctypeTokenOutline.name", None, "SOME_RANGE")],
        "finish_doctype_public_id": [("DoctypeTokenOutline.public_id", None, "SOME_RANGE")],
        "finish_doctype_system_id": [("DoctypeTokenOutline.system_id", None, "SOME_RANGE")],
        "set_force_quirks": [("DoctypeTokenOutline.force_quirks", None, "TRUE")],
        "mark_as_self_closing": [("StartTag.self_closing", None, "TRUE")],
        "start_token_part": [("Lexer.token_part_start", None, "POS")],
        "shift_comment_text_end_by": [("Range.end", "Comment.0", "END_PLUS_OFFSET")],
    }
    for fn, wants in SEM.items():
        f, ws = writes(fn)
        for (field, via, shape) in wants:
            key = f"{fn}|{field}"
            hits = [w for w in ws if (w[1] and w[1][-1] == field and (via is None or via in w[1])) or (not w[1] and w[0] == field)]
            r.inst(key, sample={"action": fn, "writes": [(w[0], w[1][-2:], w[2][:90]) for w in ws]})
            ok = False
            for w in hits:
                d = w[2]
                if shape == "RANGE":
                    ok = ok or bool(RANGE.match(d))
                elif shape == "SOME_RANGE":
                    m_ = re.match(r"^std::option::Option::Some\{(.*)\}$", d)
                    ok = ok or bool(m_ and RANGE.match(m_.group(1)))
                elif shape == "TRUE":
                    ok = ok or d.startswith("const true")
                elif shape == "POS":
                    ok = ok or ("pos" in d and "self" in d)
                elif shape == "END_PLUS_OFFSET":
                    ok = ok or ("Add" in d and "offset" in d and ".end" in d)
            if not ok:
                r.violate(key, f"Lexer::{fn} no longer records {field} as {shape} (writes: {[(w[1][-1:] , w[2][:80]) for w in ws]}): the token part would cover other bytes than the tokenizer states intend", f.loc())
    f, ws = writes("start_attr")
    calls = [callee_key(t) for bi, t in f.calls()]
    r.inst("start_attr", sample={"calls": calls})
    sw = [bi for bi, b in enumerate(f.blocks) if b["term"]["k"] == "switch" and "current_tag_token" in f.describe_operand(b["term"]["d"])]
    if not any("start_token_part" in c for c in calls) or not any(w[1] and w[1][-1] == "Lexer.current_attr" for w in ws) or not sw:
        r.violate("start_attr", "Lexer::start_attr must (for start tags only) open a fresh attribute and record the name start", f.loc())
    f, ws = writes("finish_attr")
    calls = [callee_key(t) for bi, t in f.calls()]
    r.inst("finish_attr", sample={"calls": calls})
    if "Option::take" not in calls or "Vec::push" not in calls:
        r.violate("finish_attr", "Lexer::finish_attr must take the open attribute and push it to the start tag's attribute list", f.loc())
    for fn, var in (("create_start_tag", "StartTag"), ("create_end_tag", "EndTag")):
        f, ws = writes(fn)
        r.inst(fn)
        if not any(w[1] and w[1][-1] == "Lexer.current_tag_token" and var in w[2] for w in ws):
            r.violate(fn, f"Lexer::{fn} does not create a fresh {var} outline", f.loc())

    rule_self_closing_ns(ctx, mir)
    rule_ns_primitives(ctx, mir)

    rule_foreign_feedback_table(ctx, idx, T)
    # ------------------------------------------------------------------ R03.9 (shared with C06 R06.1)
    # tokenization must not depend on which of the two state machines saw the tree-builder feedback: the bookmark carries it
    from .c06 import rule_bookmark
    rule_bookmark(ctx, mir, rid="R03.9")

    # ------------------------------------------------------------------ R03.10 (shared with C06 R06.2)
    # per-tag scratch of the tag scanner (is_in_end_tag ...) decides which feedback the simulator is asked for
    from .c06 import rule_sticky_scratch
    rule_sticky_scratch(ctx, mir, idx, rid="R03.10")

    # ------------------------------------------------------------------ R03.12 (generic, scoped to this property's anchors)
    sm.rule_named_plumbing(ctx, mir, "C03", "R03.12", floor=31)

    # ------------------------------------------------------------------ R03.13 (= R04.14)
    from .c04 import rule_hash_codes
    rule_hash_codes(ctx, mir, idx, rid="R03.13")

    ctx.not_decided += ["tree-builder simulation beyond the tables (arbitrary mis-nesting in foreign content)", "hash collisions of LocalNameHash", "full token-boundary equivalence with the WHATWG tokenizer is rule R03.1 (product exploration), reported separately when present"]
    return ("Automaton-level dataflow of the text type over all %d states (every literal transition into a text state and every tag emission), "
            "complete decision tables of the tag predicates and of the ambiguity guard obtained by finite-domain abstract interpretation of the "
            "expanded source over all %d Tag variants + {other, unhashable}, compared with tables transcribed from the HTML specification." % (len(aut.states), len(tags)))


def rule_foreign_feedback_table(ctx, idx, T, rid="R03.8"):
    """complete decision table (namespace x tag) -> {none, leave namespace, request the lexeme} of
    TreeBuilderSimulator::get_feedback_for_start_tag_in_foreign_content, by finite-domain abstract
    interpretation of the expanded source, against the table derived from the specification"""
    r = ctx.rule(rid, "start tags in foreign content: for each of {SVG, MathML} x every Tag variant + {other, unhashable} the simulator leaves the namespace exactly for the break-out tags, asks for the full tag (RequestLexeme: the tag scanner must hand the tag to the lexer, holding its bytes back) exactly for the integration points of that namespace, <font>, and unhashable names in MathML (annotation-xml), and does nothing otherwise", "E-AST (finite-domain abstract interpretation)", floor=150)
    fc = idx.one("get_feedback_for_start_tag_in_foreign_content", owner="TreeBuilderSimulator")
    ipe = idx.one("is_integration_point_enter", owner="TreeBuilderSimulator")
    helpers = {
        ("method", "leave_ns"): lambda itp, rv, args, env: "LEAVE",
        ("method", "enter_ns"): lambda itp, rv, args, env: "ENTER",
        ("method", "is_integration_point_enter"): lambda itp, rv, args, env: itp.call_fn(ipe, args, self_env={"self.current_ns": env.get("self.current_ns")}),
        "request_lexeme": lambda itp, args, env: "REQUEST",
    }
    it = Interp(idx, helpers=helpers)
    tags = tag_variants(idx)
    for ns, ips in (("Namespace::Svg", T.SVG_HTML_INTEGRATION_POINTS), ("Namespace::MathML", T.MATHML_TEXT_INTEGRATION_POINTS)):
        for t in [OTHER, EMPTY] + tags:
            try:
                v = it.call_fn(fc, [t], self_env={"self.current_ns": ns})
            except EngineError as e:
                raise EngineError(rid + ": " + str(e))
            got = {"LEAVE": "leave", "REQUEST": "request"}.get(v, "none" if str(v).endswith("TreeBuilderFeedback::None") else repr(v))
            name = lc(t) if t not in (OTHER, EMPTY) else None
            if name in T.FOREIGN_BREAKOUT:
                want = "leave"
            elif name == "font" or (name in ips) or (t == EMPTY and ns == "Namespace::MathML"):
                want = "request"
            else:
                want = "none"
            key = "%s|%s" % (ns.split("::")[-1], t)
            r.inst(key, nontrivial=(want != "none"), sample={"ns": ns, "tag": str(t), "feedback": got} if want != "none" and t in (EMPTY, "Font", "Title", "Mi", "P") else None)
            if got != want:
                r.violate(key, f"in {ns.split('::')[-1]} content a <{name or t}> start tag gives `{got}`, specification-derived table says `{want}`" + (": every such tag is handed to the lexer and its bytes are held back until the tag is complete although nothing depends on it" if got == "request" else ""), "src/parser/tree_builder_simulator/mod.rs")
    r.control(("font" not in T.FOREIGN_BREAKOUT) and ("p" in T.FOREIGN_BREAKOUT), "reference break-out list has <p> but not the conditional <font>")
    # top level: <svg> / <math> open their namespace wherever they occur (also nested in foreign content); otherwise the
    # foreign-content table applies outside the HTML namespace and the text-type table inside it
    gf = idx.one("get_feedback_for_start_tag", owner="TreeBuilderSimulator")
    it0 = Interp(idx, helpers={("method", "enter_ns"): lambda itp, rv, args, env: ("ENTER", args[0]),
                               ("method", "get_feedback_for_start_tag_in_foreign_content"): lambda itp, rv, args, env: "FOREIGN",
                               "get_text_type_adjustment": lambda itp, args, env: "TEXTADJ"})
    for ns in ("Namespace::Html", "Namespace::Svg", "Namespace::MathML"):
        for t in [OTHER, EMPTY] + tags:
            try:
                v = it0.call_fn(gf, [t], self_env={"self.current_ns": ns, "self.strict": False})
            except EngineError as e:
                raise EngineError(rid + ": " + str(e))
            v = v[1] if isinstance(v, tuple) and v and v[0] == "Ok" else v
            want = ("ENTER", "Namespace::Svg") if t == "Svg" else ("ENTER", "Namespace::MathML") if t == "Math" else ("TEXTADJ" if ns == "Namespace::Html" else "FOREIGN")
            key = "top|%s|%s" % (ns.split("::")[-1], t)
            r.inst(key, nontrivial=(t in ("Svg", "Math")))
            if v != want:
                r.violate(key, f"get_feedback_for_start_tag in the {ns.split('::')[-1]} namespace answers {v} for <{lc(t) if t not in (OTHER, EMPTY) else t}>, expected {want}: " + ("a nested <svg>/<math> must push its namespace, otherwise its end tag pops the outer one and the simulator believes it is back in HTML while still inside the island (CDATA sections, <title>/<style>/<script> there are mis-tokenized)" if t in ("Svg", "Math") else "the foreign-content rules apply exactly outside the HTML namespace"), "src/parser/tree_builder_simulator/mod.rs")
    # end tags: in foreign content the namespace is left for the root's own end tag and for </p>, </br>;
    # in the HTML content of an integration point for the integration point's own end tag (annotation-xml: full tag needed)
    sl = idx.one("should_leave_ns", owner="TreeBuilderSimulator")
    ce = idx.one("check_integration_point_exit", owner="TreeBuilderSimulator")
    it2 = Interp(idx, helpers={("method", "leave_ns"): lambda itp, rv, args, env: "LEAVE", "request_lexeme": lambda itp, args, env: "REQUEST",
                               ("method", "len"): lambda itp, rv, args, env: 2, "index": lambda itp, e, env: env["<prev_ns>"]})
    for ns, root, ips in (("Namespace::Svg", "svg", T.SVG_HTML_INTEGRATION_POINTS), ("Namespace::MathML", "math", T.MATHML_TEXT_INTEGRATION_POINTS)):
        for t in [OTHER, EMPTY] + tags:
            name = lc(t) if t not in (OTHER, EMPTY) else None
            try:
                v = it2.call_fn(sl, [t], self_env={"self.current_ns": ns})
                w = it2.call_fn(ce, [t], self_env={"self.ns_stack": Sym("stack"), "<prev_ns>": ns, "self.current_ns": "Namespace::Html"})
            except EngineError as e:
                raise EngineError(rid + ": " + str(e))
            key = "end|%s|%s" % (ns.split("::")[-1], t)
            r.inst(key, nontrivial=False)
            want = name in (root, "p", "br")
            if v is not want:
                r.violate(key, f"in {ns.split('::')[-1]} content the end tag </{name or t}> {'leaves' if v else 'does not leave'} the namespace; reference: {'leave' if want else 'stay'}", "src/parser/tree_builder_simulator/mod.rs")
            got = {"LEAVE": "leave", "REQUEST": "request"}.get(w, "none" if str(w).endswith("TreeBuilderFeedback::None") else repr(w))
            want2 = "leave" if name in ips else ("request" if (t == EMPTY and ns == "Namespace::MathML") else "none")
            if got != want2:
                r.violate(key + "|integration-point-exit", f"inside an HTML integration point of {ns.split('::')[-1]} the end tag </{name or t}> gives `{got}`; reference `{want2}`", "src/parser/tree_builder_simulator/mod.rs")


def rule_ambiguity_guard(ctx, idx, mir, T, rid="R03.3"):
    it = Interp(idx)
    tags = tag_variants(idx)
    domain = [OTHER, EMPTY] + tags
    # ------------------------------------------------------------------ R03.3
    r = ctx.rule(rid, "ambiguity guard: complete decision table of AmbiguityGuard::track_start_tag/track_end_tag over (state x tag) equals the reference (select / template-in-select / frameset), and the strict flag only gates the guard", "E-AST (finite-domain abstract interpretation)", floor=100)
    ts = idx.one("track_start_tag", owner="AmbiguityGuard")
    te = idx.one("track_end_tag", owner="AmbiguityGuard")
    states = ["State::Default", "State::InSelect", ("State::InTemplateInSelect", 1), ("State::InTemplateInSelect", 2), "State::InOrAfterFrameset"]
    switching = set(T.TEXT_TYPE_BY_TAG)

    def ref_start(state, tag):
        t = lc(tag) if tag not in (OTHER, EMPTY) else None
        err = False
        nxt = state
        if state == "State::Default":
            if t == "select":
                nxt = "State::InSelect"
            elif t == "frameset":
                nxt = "State::InOrAfterFrameset"
        elif state == "State::InSelect":
            if t in T.IN_SELECT_LEAVE_START:
                nxt = "State::Default"
            elif t == "template":
                nxt = ("State::InTemplateInSelect", 1)
            elif t in switching and t not in T.IN_SELECT_PROCESSED:
                err = True
        elif isinstance(state, tuple):
            if t == "template":
                nxt = ("State::InTemplateInSelect", state[1] + 1)
            elif t in switching:
                err = True
        elif state == "State::InOrAfterFrameset":
            if t in switching and t not in T.FRAMESET_PROCESSED:
                err = True
        return err, nxt

    def ref_end(state, tag):
        t = lc(tag) if tag not in (OTHER, EMPTY) else None
        if state == "State::InSelect" and t == "select":
            return "State::Default"
        if isinstance(state, tuple) and t == "template":
            return "State::InSelect" if state[1] == 1 else ("State::InTemplateInSelect", state[1] - 1)
        return state

    def norm_state(v):
        if isinstance(v, tuple):
            return (v[0], v[1])
        return v
    for s in states:
        for t in domain:
            it.effects = []
            v = it.call_fn(ts, [t], self_env={"self.state": s})
            err = isinstance(v, tuple) and v[0] == "Err"
            sets = [x for x in it.effects if x[0] == "set" and x[1] == "self.state"]
            nxt = norm_state(sets[-1][2]) if sets else s
            key = "start|%s|%s" % (s if isinstance(s, str) else "%s(%d)" % s, t)
            r.inst(key, nontrivial=(t not in (OTHER, EMPTY)))
            we, wn = ref_start(s, t)
            if err != we or (not err and nxt != wn):
                r.violate(key, f"AmbiguityGuard::track_start_tag in {s} on <{lc(t)}>: {'refuses' if err else 'goes to %s' % (nxt,)}; reference: {'refuse' if we else 'go to %s' % (wn,)}", "src/parser/tree_builder_simulator/ambiguity_guard.rs")
            it.effects = []
            it.call_fn(te, [t], self_env={"self.state": s})
            sets = [x for x in it.effects if x[0] == "set" and x[1] == "self.state"]
            nxt = norm_state(sets[-1][2]) if sets else s
            key = "end|%s|%s" % (s if isinstance(s, str) else "%s(%d)" % s, t)
            r.inst(key, nontrivial=(t not in (OTHER, EMPTY)))
            if nxt != ref_end(s, t):
                r.violate(key, f"AmbiguityGuard::track_end_tag in {s} on </{lc(t)}>: goes to {nxt}; reference: {ref_end(s, t)} (the guard would forget that it is still inside <select>/<template>)", "src/parser/tree_builder_simulator/ambiguity_guard.rs")
    # positive control: a wrong reference must be noticed
    r.control(ref_end(("State::InTemplateInSelect", 1), "Template") != "State::Default", "reference distinguishes InSelect from Default after </template>")
    clause_strict_gates_guard(r, mir)
    ctor = sorted(set(f.key for f in mir.fns if not mir.is_test_fn(f) for b in f.blocks for st in b["stmts"] if st["k"] == "assign" and st["rv"]["k"] == "agg" and st["rv"]["name"].endswith("ParsingAmbiguityError")))
    r.inst("error|constructors", sample={"constructors": ctor})
    if ctor != ["parser::tree_builder_simulator::ambiguity_guard::assert_not_ambiguous_text_type_switch"]:
        r.violate("error|constructors", f"ParsingAmbiguityError is constructed in {ctor}; strict mode must fail only through the ambiguity guard", None)



def clause_strict_gates_guard(r, mir):
    # strict flag: read only as the guard of the two track calls
    readers = sorted(set(f.key for f in mir.fns if not mir.is_test_fn(f) and "TreeBuilderSimulator.strict" in sm.fields_read(f)))
    r.inst("strict|readers", sample={"readers": readers})
    if readers != ["TreeBuilderSimulator::get_feedback_for_end_tag", "TreeBuilderSimulator::get_feedback_for_start_tag"]:
        r.violate("strict|readers", f"TreeBuilderSimulator.strict is read in {readers}; a successful strict run must differ from the non-strict run in nothing but the guard", "src/parser/tree_builder_simulator/mod.rs")
    for nm, tr in (("TreeBuilderSimulator::get_feedback_for_start_tag", "track_start_tag"), ("TreeBuilderSimulator::get_feedback_for_end_tag", "track_end_tag")):
        f = mir.fn(nm)
        tc = [bi for bi, t in f.calls(r"AmbiguityGuard::" + tr + "$")]
        r.inst(nm + "|guarded")
        if len(tc) != 1:
            r.violate(nm + "|guarded", f"{nm} does not call AmbiguityGuard::{tr} exactly once", f.loc())
            continue
        # the call is control-dependent on strict == true and everything else is not
        sw = [bi for bi, b in enumerate(f.blocks) if b["term"]["k"] == "switch" and f.describe_operand(b["term"]["d"]).endswith(".strict")]
        if len(sw) != 1:
            r.violate(nm + "|guarded", f"{nm}: expected exactly one branch on self.strict", f.loc())
            continue
        false_t = [x[1] for x in f.blocks[sw[0]]["term"]["ts"] if x[0] == 0][0]
        true_t = f.blocks[sw[0]]["term"]["else"]
        if not f.dominates(true_t, tc[0]) or f.dominates(false_t, tc[0]):
            r.violate(nm + "|guarded", f"{nm}: the ambiguity guard is not executed exactly when strict is set", f.loc())
        others = [bi for bi, t in f.calls() if bi != tc[0] and not re.search(r"branch|from_residual", callee_key(t))]
        if any(f.dominates(true_t, o) and not f.dominates(false_t, o) and o not in f.reachable_blocks(false_t) for o in others):
            r.violate(nm + "|strict-only-work", f"{nm}: work other than the guard happens only in strict mode", f.loc())


def rule_product(ctx, g, aut, rid="R03.1"):
    r = ctx.rule(rid, "the tokenizer automaton extracted from the expanded source agrees with the WHATWG reference model on every input: same token emissions in the same step with the same raw extent and equal tag-name / attribute / comment / doctype ranges and flags, same attribute starts, same end-of-input events (product exploration over all reachable configurations, all 256 bytes + EOF, all oracle answers, every tree-builder choice of text state)", "E-SM product exploration vs spec/whatwg_tokenizer.py", floor=2000, exhaustive=True)
    from ..product import spec_selfcheck, Explorer
    nchk, bad = spec_selfcheck()
    if bad:
        raise EngineError(rid + ": the WHATWG reference model fails its own sanity facts: %s" % bad)
    r.analysed["reference_model_selfchecks"] = nchk
    ex = Explorer(g, aut)
    ex.explore()
    r.instances = ex.configs
    r.nontrivial = set(ex.pairs)
    r.analysed.update({"configurations": ex.configs, "state_pairs": len(ex.pairs), "emissions_compared": ex.emissions, "attributes_compared": ex.attr_compared, "ranges_compared": ex.ranges_compared})
    r.samples = ex.samples[:4]
    seen_m = set()
    for m_ in ex.mismatches:
        mm = re.search(r"on (\w+_state) \[([^\]]*)\]", m_)
        key = (mm.group(1) + "|" + mm.group(2)) if mm else m_[:80]
        if key in seen_m:
            continue
        seen_m.add(key)
        r.violate(key, m_[:900], shared.state_loc(mm.group(1)) if mm else None)
    if not ex.mismatches and (ex.emissions < 1000 or len(ex.pairs) < 90):
        raise EngineError(rid + ": the product exploration covered only %d emissions / %d state pairs" % (ex.emissions, len(ex.pairs)))



def rule_ns_primitives(ctx, mir, rid="R03.11"):
    """the two primitives under every table of the simulator"""
    r = ctx.rule(rid, "namespace stack primitives: enter_ns(ns) pushes ns and makes it current unconditionally (nested <svg> in SVG included — its end tag pops) and allows CDATA iff ns is not HTML; leave_ns pops, makes the new top current and allows CDATA iff the namespace it ends up in is not HTML", "E-MIR", floor=4)
    en = mir.fn("TreeBuilderSimulator::enter_ns")
    push = [(bi, t) for bi, t in en.calls(r"Vec::push$")]
    wcur = [(bi, en.deep(st["rv"]["o"])) for bi, b in enumerate(en.blocks) for st in b["stmts"] if st["k"] == "assign" and st["p"]["proj"] and en.describe_place(st["p"]).endswith("current_ns") and st["rv"]["k"] == "use"]
    r.inst("enter_ns|push-unconditional", sample={"pushes": len(push), "current_ns_writes": [w for _, w in wcur]})
    if len(push) != 1 or guarding_branches(en, push[0][0]) or "ns_stack" not in en.deep(push[0][1]["args"][0]) or en.deep(push[0][1]["args"][1]) != "ns" or len(wcur) != 1 or wcur[0][1] != "ns" or guarding_branches(en, wcur[0][0]):
        r.violate("enter_ns|push-unconditional", "TreeBuilderSimulator::enter_ns does not push its namespace (and make it current) on every call: a root nested in its own namespace (<svg><svg>) is then not on the stack, its end tag pops the outer entry, and the simulator believes it is back in HTML inside the outer island", en.loc())
    def cdata_operand(f):
        return [f.deep(st["rv"]["ops"][0]) for b in f.blocks for st in b["stmts"] if st["k"] == "assign" and st["rv"]["k"] == "agg" and (st["rv"].get("name") or "").endswith("SetAllowCdata")]
    ce = cdata_operand(en)
    r.inst("enter_ns|cdata", sample={"operand": [c[:60] for c in ce]})
    if len(ce) != 1 or not ce[0].startswith("PartialEq::ne(ns, ") or "Html" not in ce[0] and "promoted" not in ce[0]:
        r.violate("enter_ns|cdata", f"enter_ns answers SetAllowCdata({ce}) instead of `ns != Html`", en.loc())
    lv = mir.fn("TreeBuilderSimulator::leave_ns")
    pops = [bi for bi, t in lv.calls(r"Vec::pop$")]
    wl = [(bi, lv.deep(st["rv"]["o"])) for bi, b in enumerate(lv.blocks) for st in b["stmts"] if st["k"] == "assign" and st["p"]["proj"] and lv.describe_place(st["p"]).endswith("current_ns") and st["rv"]["k"] == "use"]
    cl = cdata_operand(lv)
    r.inst("leave_ns|pop-then-top", sample={"pops": len(pops), "current_ns_from": [w[:50] for _, w in wl], "cdata": [c[:50] for c in cl]})
    if len(pops) != 1 or guarding_branches(lv, pops[0]) or len(wl) != 1 or "last(" not in wl[0][1] or not lv.dominates(pops[0], wl[0][0]):
        r.violate("leave_ns|pop-then-top", "TreeBuilderSimulator::leave_ns no longer pops one entry and makes the new top of the stack the current namespace", lv.loc())
    r.inst("leave_ns|cdata")
    if len(cl) != 1 or not cl[0].startswith("PartialEq::ne(self.current_ns, "):
        r.violate("leave_ns|cdata", f"leave_ns answers SetAllowCdata({[c[:70] for c in cl]}) instead of `current_ns != Html` computed after the pop: CDATA sections are (dis)allowed according to the namespace that was left, not the one the parser is in — e.g. after a nested </svg> inside <svg>, `<![CDATA[..]]>` becomes a bogus comment", lv.loc())


def rule_self_closing_ns(ctx, mir, rid="R03.7"):
    # ------------------------------------------------------------------ R03.7
    r = ctx.rule(rid, "a self-closing start tag opens no namespace scope (WHATWG: the element is popped at once, so `<svg/>`, `<math/>`, `<title/>` in SVG … leave the insertion mode as it was): every TreeBuilderSimulator::enter_ns reached from start-tag feedback is control-dependent on the tag's self_closing flag; leave_ns on a start tag needs no such test", "E-MIR control dependence", floor=4)
    for f, bi, t in mir.callers_of(r"TreeBuilderSimulator::enter_ns$"):
        if mir.is_test_fn(f):
            continue
        nsarg = f.deep(t["args"][1]).split("::")[-1].split(":")[0].strip("{} ")
        key = "enter_ns|" + f.key + "|" + nsarg
        guards = [f.deep(f.blocks[sb]["term"]["d"]) for sb in guarding_branches(f, bi)]
        ok = any("self_closing" in g for g in guards)
        r.inst(key, sample={"fn": f.key, "namespace": nsarg, "guards": [g[:70] for g in guards]})
        if not ok:
            r.violate(key, f"{f.key} enters namespace {nsarg} for a start tag without testing its self-closing flag: after a self-closing tag the simulator stays in that namespace, so text-mode switches (<textarea>, <style>, <script>…), CDATA permission and namespace_uri() differ from a WHATWG parser until a matching end tag happens to follow", f.loc())


def rule_tag_tables(ctx, idx, T, rid="R03.2"):
    tags = tag_variants(idx)
    # ------------------------------------------------------------------ R03.2
    r = ctx.rule(rid, "tag tables agree with each other and with the HTML specification (text-mode switching tags, foreign-content break-out list, integration points, annotation-xml encodings)", "E-AST (finite-domain abstract interpretation of the tag predicates)", floor=5)
    it = Interp(idx)
    domain = [OTHER, EMPTY] + tags

    def table_of(fn_name, post=lambda v: v):
        f = [x for x in idx.fns if x.name == fn_name and x.owner is None]
        if len(f) != 1:
            raise EngineError("anchor fn " + fn_name)
        out = {}
        for t in domain:
            it.effects = []
            out[t] = post(it.call_fn(f[0], [t]))
        return out
    # T2 tag -> text type
    def tt(v):
        if isinstance(v, str):
            return v.split("::")[-1]
        if isinstance(v, tuple):
            return v[0].split("::")[-1]
        return repr(v)
    t2 = table_of("get_text_type_adjustment", tt)
    got = {lc(k): v for k, v in t2.items() if v not in ("None",)}
    r.inst("T2:text-type-by-tag", sample={"table": got})
    for k in sorted(set(got) | set(T.TEXT_TYPE_BY_TAG)):
        if got.get(k) != T.TEXT_TYPE_BY_TAG.get(k):
            r.violate("T2:" + k, f"get_text_type_adjustment maps <{k}> to {got.get(k)}, the specification says {T.TEXT_TYPE_BY_TAG.get(k)}", "src/parser/tree_builder_simulator/mod.rs")
    # T1 ambiguity assert list == keys of T2
    f = [x for x in idx.fns if x.name == "assert_not_ambiguous_text_type_switch"]
    if len(f) != 1:
        raise EngineError("anchor assert_not_ambiguous_text_type_switch")
    amb = set()
    for t in domain:
        v = it.call_fn(f[0], [t])
        if isinstance(v, tuple) and v[0] == "Err":
            amb.add(t)
    r.inst("T1:ambiguity-list", sample={"refused": sorted(lc(x) for x in amb)})
    if set(lc(x) for x in amb) != set(got):
        r.violate("T1", f"the ambiguity guard refuses {sorted(lc(x) for x in amb)} but the text-mode switching tags are {sorted(got)}: a switching tag missing from the guard is silently mis-tokenized in select/frameset", "src/parser/tree_builder_simulator/ambiguity_guard.rs")
    # T3 foreign breakout
    t3 = table_of("causes_foreign_content_exit")
    got3 = set(lc(k) for k, v in t3.items() if v is True)
    r.inst("T3:foreign-breakout", sample={"n": len(got3)})
    if got3 != T.FOREIGN_BREAKOUT:
        r.violate("T3", f"causes_foreign_content_exit differs from the specification's break-out list: missing {sorted(T.FOREIGN_BREAKOUT - got3)}, extra {sorted(got3 - T.FOREIGN_BREAKOUT)}", "src/parser/tree_builder_simulator/mod.rs")
    t4a = set(lc(k) for k, v in table_of("is_text_integration_point_in_math_ml").items() if v is True)
    t4b = set(lc(k) for k, v in table_of("is_html_integration_point_in_svg").items() if v is True)
    r.inst("T4:integration-points", sample={"mathml": sorted(t4a), "svg": sorted(t4b)})
    if t4a != T.MATHML_TEXT_INTEGRATION_POINTS:
        r.violate("T4:mathml", f"MathML text integration points are {sorted(t4a)}, specification: {sorted(T.MATHML_TEXT_INTEGRATION_POINTS)}", "src/parser/tree_builder_simulator/mod.rs")
    if t4b != T.SVG_HTML_INTEGRATION_POINTS:
        r.violate("T4:svg", f"SVG HTML integration points are {sorted(t4b)}, specification: {sorted(T.SVG_HTML_INTEGRATION_POINTS)}", "src/parser/tree_builder_simulator/mod.rs")
    # byte-string literals compared in the RequestLexeme closures
    fc = idx.one("get_feedback_for_start_tag_in_foreign_content", owner="TreeBuilderSimulator")
    lits = set()
    for n in walk(fc.node["body"]):
        if n.get("k") == "Call" and n["func"].get("k") == "Path" and n["func"]["path"].endswith("eq_case_insensitive"):
            a = n["args"][1]
            for m in walk(a):
                if m.get("k") == "Lit" and m["lit"]["t"] == "bytestr":
                    lits.add(bytes(m["lit"]["v"]).decode())
    r.inst("T4:literals", sample={"literals": sorted(lits)})
    want = T.FONT_BREAKOUT_ATTRS | T.ANNOTATION_XML_HTML_ENCODINGS | {"annotation-xml", "encoding"}
    if lits != want:
        r.violate("T4:literals", f"names compared in foreign content are {sorted(lits)}, specification: {sorted(want)}", "src/parser/tree_builder_simulator/mod.rs")
