import os
import re
"""MIR helpers shared between property modules."""
from ..mirlib import short_ty, callee_key
from ..facts import EngineError


def _fields(fn, want_write):
    out = set()
    for b in fn.blocks:
        for st in b["stmts"]:
            if st["k"] != "assign":
                continue
            if want_write:
                _add_place(out, st["p"], last_only=True)
            else:
                _scan_rv(out, st["rv"])
                # projections of the written place other than the last are reads of a path
        t = b["term"]
        if not want_write:
            if t["k"] == "call":
                for a in t["args"]:
                    _scan_op(out, a)
            elif t["k"] == "switch":
                _scan_op(out, t["d"])
    return out


def _add_place(out, p, last_only=False):
    fl = [e for e in p["proj"] if isinstance(e, dict) and "f" in e]
    if not fl:
        return
    if last_only:
        if isinstance(p["proj"][-1], dict) and "f" in p["proj"][-1]:
            e = p["proj"][-1]
            out.add(short_ty(e["of"]) + "." + e["f"])
        return
    for e in fl:
        out.add(short_ty(e["of"]) + "." + e["f"])


def _scan_op(out, o):
    if o["k"] in ("copy", "move"):
        _add_place(out, o["p"])


def _scan_rv(out, rv):
    k = rv["k"]
    if k in ("use", "un", "cast", "repeat"):
        _scan_op(out, rv["o"])
    elif k in ("ref", "rawptr", "discr"):
        _add_place(out, rv["p"])
    elif k == "bin":
        _scan_op(out, rv["a"])
        _scan_op(out, rv["b"])
    elif k == "agg":
        for o in rv["ops"]:
            _scan_op(out, o)


def fields_read(fn):
    """'Type.field' names appearing in operands/borrows (an over-approximation of reads)."""
    return _fields(fn, False)


def fields_written(fn):
    return _fields(fn, True)


def check_commit_order(mir, r):
    f = mir.fn("Dispatcher::try_produce_token_from_lexeme")
    emits = [bi for bi, t in f.calls(r"DispatcherDelegate::emit_chunk_before_lexeme$")]
    cons = [bi for bi, t in f.calls(r"DispatcherDelegate::consume_lexeme$")]
    toks = [(bi, callee_key(t)) for bi, t in f.calls(r"(DispatcherDelegate::token_produced|TextDecoder::feed_text)$")]
    r.count("emit_chunk_before_lexeme", len(emits))
    r.count("consume_lexeme", len(cons))
    if len(toks) < 2:
        r.violate("anchor", "try_produce_token_from_lexeme: token_produced / feed_text calls not found", f.loc())
    errs = f.err_return_blocks()
    rets = f.return_blocks()
    for bi, name in toks:
        key = "try_produce_token_from_lexeme|" + name
        r.inst(key, sample={"token_call": name, "block": bi})
        e_dom = [e for e in emits if f.dominates(e, bi)]
        c_after = [c for c in cons if f.dominates(bi, c)]
        if not e_dom:
            r.violate(key + "|emit-before", f"{name} is not preceded by emit_chunk_before_lexeme on every path (the gap before the lexeme would be lost or reordered)", f.loc())
        if not c_after:
            r.violate(key + "|consume-after", f"no consume_lexeme after {name} (the lexeme would be emitted twice: serialised and raw)", f.loc())
        # any consume_lexeme reachable before the token call (between the dominating emit and the call)?
        for c in cons:
            if any(f.dominates(e, c) for e in e_dom) and c in f.reachable_blocks(e_dom[-1] if e_dom else 0, avoid=[bi]) and bi in f.reachable_blocks(c):
                r.violate(key + "|early-consume", f"consume_lexeme can run before {name} returns: on a handler error remaining_content_start already points past the lexeme and a graceful bail-out loses its bytes", f.loc())
        # error edge: from the Try::branch after the call, the Break arm must reach return without consume_lexeme
        nxt = f.blocks[bi]["term"]["t"]
        if nxt >= 0:
            # blocks reachable from the call's successor avoiding consume blocks must include a return (error path exists untouched)
            if not f.can_reach_without(nxt, set(rets), set(cons)):
                r.violate(key + "|err-edge", f"every path after {name} passes consume_lexeme, including its error edge", f.loc())


def clause_eq_case_insensitive(r, mir):
    """base::eq_case_insensitive decides attribute lookup, selector attribute tests and foreign-content
    checks: it must compare lengths and then, byte by byte, the ASCII-lower-cased left byte with the
    right byte — ASCII letters fold, every other byte (digits, punctuation, non-ASCII) compares exactly.
    Shape-tolerant: the loop may be written with indices or with iterator adaptors / closures."""
    f = mir.fn("base::eq_case_insensitive")
    bodies = [f] + [g for g in mir.fns if g.key.startswith("base::eq_case_insensitive::{closure") and "debug_assert" not in g.key]
    key = "eq_case_insensitive|shape"
    cmps = []
    bitops = []
    lens = False
    for g in bodies:
        # the debug_assert!(lowercased is lower-case) closure compares b with b.to_ascii_lowercase(): same byte on both sides
        for b in g.blocks:
            for st in b["stmts"]:
                if st["k"] == "assign" and st["rv"]["k"] == "bin":
                    op = st["rv"]["op"]
                    a, c = g.deep(st["rv"]["a"]), g.deep(st["rv"]["b"])
                    if op in ("Ne", "Eq"):
                        if re.match(r"^(\[T\]|core::slice::<impl \[T\]>|slice)::len\(", a) and re.match(r"^(\[T\]|core::slice::<impl \[T\]>|slice)::len\(", c):
                            lens = True
                        elif a.replace("u8::to_ascii_lowercase(", "").rstrip(")") == c or c.replace("u8::to_ascii_lowercase(", "").rstrip(")") == a:
                            continue          # `b == b.to_ascii_lowercase()`: the debug assertion on the second argument
                        else:
                            cmps.append((a, c))
                    elif op.startswith(("BitXor", "BitAnd", "BitOr", "Shl", "Shr")):
                        bitops.append((op, a[:40], c[:40]))
        for bi, t in g.calls(r"eq_ignore_ascii_case$"):
            cmps.append(("eq_ignore_ascii_case", "both sides folded"))
    good = [1 for a, c in cmps if ("to_ascii_lowercase(" in a) != ("to_ascii_lowercase(" in c)]
    r.inst(key, sample={"byte_comparisons": [(a[:50], c[:50]) for a, c in cmps], "length_test": lens, "bit_arithmetic": bitops})
    if not lens or len(good) != 1 or len(cmps) != 1 or bitops:
        r.violate(key, f"base::eq_case_insensitive no longer compares `mixed_case[i].to_ascii_lowercase()` with `lowercased[i]` after a length test (comparisons: {[(a[:40], c[:40]) for a, c in cmps]}, bit arithmetic: {bitops}, length test: {lens}): bytes that are not ASCII letters (`@` vs `` ` ``, `[` vs `{{`, non-ASCII lead bytes) could compare equal, so a lookup or selector would hit a different attribute", f.loc())


def clause_open_name_counts_shrinks(r, mir):
    """Stack.open_name_counts holds one entry per *currently open* element name: pop_up_to must remove
    an entry when its count reaches zero, otherwise the map (with an owned copy of every tag name ever
    seen) grows with the number of distinct names in the document instead of with the nesting depth."""
    from ..mirlib import guarding_branches
    f = mir.fn("Stack::pop_up_to")
    key = "open_name_counts|entry-removed-at-zero"
    rem = [(bi, t) for bi, t in f.calls(r"RawOccupiedEntryMut::remove(_entry)?$|HashMap::remove(_entry)?$|OccupiedEntry::remove(_entry)?$")]
    ok = False
    for bi, t in rem:
        gs = [f.deep(f.blocks[sb]["term"]["d"]) for sb in guarding_branches(f, bi)]
        if any("open_name_counts" in g and "Eq const 0" in g for g in gs):
            ok = True
    r.inst(key, sample={"remove_calls": len(rem)})
    if not ok:
        r.violate(key, "Stack::pop_up_to no longer removes an open_name_counts entry when its count drops to zero: the map keeps an owned copy of every distinct tag name ever opened (uncharged growth with the document's vocabulary), and a later stray end tag of that name walks the stack for nothing", f.loc())


def clause_rewrite_str_plumbing(r, mir):
    """rewrite_str is the one-shot form of the same rewriter: the RewriteStrSettings -> Settings conversion forwards
    every field of RewriteStrSettings (type-driven), and rewrite_str pins the encoding to UTF-8 with <meta charset>
    switching off (its input is a &str)."""
    adt = [a for p, a in mir.adts.items() if p.endswith("::RewriteStrSettings") or p == "RewriteStrSettings"]
    conv = mir.fn("Settings::from[From]")
    ag = [st["rv"] for b in conv.blocks for st in b["stmts"] if st["k"] == "assign" and st["rv"]["k"] == "agg" and (st["rv"].get("name") or "").endswith("Settings")]
    if len(adt) != 1 or len(ag) != 1:
        r.inst("RewriteStrSettings|conversion")
        r.violate("RewriteStrSettings|conversion", "the RewriteStrSettings -> Settings conversion was not found in the expected form (one aggregate)", conv.loc())
        return
    src = dict(zip(ag[0]["fields"], [conv.deep(o) for o in ag[0]["ops"]]))
    for fld in adt[0]["variants"][0]["fields"]:
        nm = fld["name"]
        key = "RewriteStrSettings." + nm + "|forwarded"
        r.inst(key, sample={"field": nm, "source": src.get(nm)})
        if src.get(nm) != "settings." + nm:
            r.violate(key, f"the conversion RewriteStrSettings -> Settings takes `{nm}` from `{src.get(nm)}` instead of the caller's settings.{nm}: rewrite_str would ignore that setting (e.g. strict(false) silently staying strict) and behave differently from HtmlRewriter on the same input", conv.loc())
    rs = mir.fn("rewriter::rewrite_str")
    meta = [conv_ for conv_ in [(callee_key_(t), [rs.deep(a) for a in t["args"][1:]]) for bi, t in rs.calls()] if conv_[0].endswith("with_adjust_charset_on_meta_tag")]
    enc = [c for c in [(callee_key_(t), [rs.deep(a) for a in t["args"][1:]]) for bi, t in rs.calls()] if c[0].endswith("Settings::with_encoding")]
    r.inst("rewrite_str|utf8-pinned", sample={"meta": meta, "encoding": enc})
    if len(meta) != 1 or not meta[0][1][0].startswith("const false") or len(enc) != 1 or "utf_8()" not in enc[0][1][0]:
        r.violate("rewrite_str|utf8-pinned", f"rewrite_str no longer forces adjust_charset_on_meta_tag(false) and the UTF-8 encoding (meta: {meta}, encoding: {enc}): a <meta charset=...> in the &str input would switch the decoder and captured text would be re-encoded as garbage", rs.loc())


def callee_key_(t):
    from ..mirlib import callee_key
    return callee_key(t)


def clause_seq_mark_writes(r, mir):
    """the look-ahead mark is (re)established on every entry and cleared on leave: enter_ch_sequence_matching assigns
    Some(pos()) unconditionally (a re-entered state after a chunk boundary must not keep the offset of the old buffer),
    leave_ch_sequence_matching assigns None; nothing else touches the field"""
    ws = {}
    for f, bi, st in mir.field_writes("TagScanner", "ch_sequence_matching_start"):
        if mir.is_test_fn(f):
            continue
        ws.setdefault(f.key, []).append(f.deep(st["rv"]["o"]) if st["rv"]["k"] == "use" else st["rv"]["k"])
    r.inst("seq-mark|writes", sample=ws)
    e = ws.get("TagScanner::enter_ch_sequence_matching[StateMachine]", [])
    l = ws.get("TagScanner::leave_ch_sequence_matching[StateMachine]", [])
    en = mir.fn("TagScanner::enter_ch_sequence_matching[StateMachine]")
    extra_calls = [callee_key_(t) for bi, t in en.calls() if not callee_key_(t).endswith("pos[StateMachine]")]
    has_branch = any(b["term"]["k"] == "switch" for b in en.blocks if not b["cleanup"])
    if set(ws) - {"TagScanner::enter_ch_sequence_matching[StateMachine]", "TagScanner::leave_ch_sequence_matching[StateMachine]", "TagScanner::new"} or \
            len(e) != 1 or not e[0].endswith("Option::Some{TagScanner::pos[StateMachine](self)}") or extra_calls or has_branch or len(l) != 1 or not l[0].endswith("Option::None{}"):
        r.violate("seq-mark|writes", f"TagScanner.ch_sequence_matching_start must be set to Some(pos()) unconditionally by enter_ch_sequence_matching and to None by leave_ch_sequence_matching (writes: {ws}, other calls in enter: {extra_calls}, branch in enter: {has_branch}): a mark kept from the previous chunk is an offset into a buffer that no longer exists — the consumed count lags or underflows", en.loc())


def clause_deactivate_counts(r, mir):
    """HandlerVec::do_for_each_active_and_deactivate: the aggregate count is reduced by the item's count *before* the
    item's count is zeroed (otherwise has_active() stays true for ever and the dispatcher keeps asking for every start tag)"""
    f = mir.fn("HandlerVec::do_for_each_active_and_deactivate")
    subs = [bi for bi, b in enumerate(f.blocks) for st in b["stmts"] if st["k"] == "assign" and st["rv"]["k"] == "bin" and st["rv"]["op"].startswith("Sub") and "user_count" in f.deep(st["rv"]["a"]) and "user_count" in f.deep(st["rv"]["b"])]
    zero = [(bi, i) for bi, b in enumerate(f.blocks) for i, st in enumerate(b["stmts"]) if st["k"] == "assign" and st["p"]["proj"] and f.describe_place(st["p"]).endswith(".user_count") and st["rv"]["k"] == "use" and f.deep(st["rv"]["o"]).startswith("const 0")]
    r.inst("deactivate|count-before-zero", sample={"subtractions": len(subs), "zeroings": len(zero)})
    ok = len(subs) == 1 and len(zero) == 1
    if ok:
        sb, (zb, zi) = subs[0], zero[0]
        if sb == zb:
            si = [i for i, st in enumerate(f.blocks[sb]["stmts"]) if st["k"] == "assign" and st["rv"]["k"] == "bin" and st["rv"]["op"].startswith("Sub")][0]
            ok = si < zi
        else:
            ok = f.dominates(sb, zb)
    if not ok:
        r.violate("deactivate|count-before-zero", "do_for_each_active_and_deactivate zeroes the handler's user_count before subtracting it from the vector's total: the total never decreases, has_active() stays true after the first match, and every later start tag (and what follows each end tag) is lexed and buffered in full although no handler wants it", f.loc())


def clause_finish_order(r, mir):
    """DispatcherDelegate::finish: all remaining input is flushed before the document-end handlers run (their appended
    content comes after the last input byte), and the zero-length finalizing chunk only after they succeeded"""
    dfin = mir.fn("DispatcherDelegate::finish")
    fl = [bi for bi, t in dfin.calls(r"DispatcherDelegate::flush_remaining_input$")]
    he = [bi for bi, t in dfin.calls(r"handle_end$")]
    r.inst("finish|flush-before-end-handlers", sample={"flushes": len(fl), "handle_end": len(he)})
    if len(fl) != 1 or not he or not all(dfin.dominates(fl[0], h) for h in he):
        r.violate("finish|flush-before-end-handlers", "DispatcherDelegate::finish runs the document-end handlers before (or without) flushing the remaining input: content appended at document end lands in front of the bytes still pending at end(), and a failing end handler loses them", dfin.loc())


def clause_raw_entry_compares_keys(r, mir):
    """a raw-entry lookup by precomputed hash must confirm the key: its match closure returns the result of comparing the
    names (hash tags collide, and the map's random seed differs per instance, so skipping the comparison merges distinct
    element names differently in every rewriter)"""
    n = 0
    for f in mir.fns:
        if mir.is_test_fn(f):
            continue
        for bi, t in f.calls(r"::from_hash$"):
            n += 1
            clos = [a for a in t["args"] if a.get("k") in ("copy", "move")]
            cname = None
            for a in clos:
                for kind, dbi, x in f.defs_of(a["p"]["local"]):
                    if kind == "assign" and x["rv"]["k"] == "agg" and x["rv"].get("what") == "closure":
                        cname = x["rv"]["name"]
            key = f.key + "|from_hash"
            g = [h for h in mir.fns if h.path == cname] if cname else []
            ok = False
            if g:
                g = g[0]
                eqs = [(ebi, et) for ebi, et in g.calls(r"eq\[PartialEq\]$|::eq$")]
                consts = [st for b in g.blocks for st in b["stmts"] if st["k"] == "assign" and st["p"]["local"] == 0 and not st["p"]["proj"] and st["rv"]["k"] == "use" and st["rv"]["o"]["k"] == "const"]
                ok = len(eqs) == 1 and eqs[0][1]["dest"]["local"] == 0 and not consts
            r.inst(key, sample={"lookup_in": f.key, "match_closure": cname})
            if not ok:
                r.violate(key, f"{f.key}: the match closure of a raw-entry lookup by hash does not return exactly the comparison of the two keys: names with colliding hash tags are merged, and since the hash seed is random per map the outcome differs between rewriters, threads and runs", f.loc())
    return n


def clause_directive_after_token(r, mir):
    """Dispatcher::handle_tag decides the next parser mode only after the token was produced: the one-shot
    NEXT_START_TAG / NEXT_END_TAG flags are cleared while producing it"""
    f = mir.fn("Dispatcher::handle_tag[LexemeSink]")
    tp = [bi for bi, t in f.calls(r"Dispatcher::try_produce_token_from_lexeme$")]
    gd = [bi for bi, t in f.calls(r"Dispatcher::get_next_parser_directive$")]
    r.inst("handle_tag|directive-after-token", sample={"try_produce": len(tp), "get_next_parser_directive": len(gd)})
    if len(tp) != 1 or len(gd) != 1 or not f.dominates(tp[0], gd[0]):
        r.violate("handle_tag|directive-after-token", "Dispatcher::handle_tag asks for the next parser directive before the token was produced: the one-shot capture flag is still set at that point, so the parser stays in lexer mode for one more tag and buffers the next (unselected) tag or comment whole — held back, and charged to the memory limit, although no handler wants it", f.loc())


# ---------------------------------------------------------------------------------------------
# generic plumbing lint, scoped to a property's anchored files
def _plain_name(f, op):
    """last path segment of an operand that is a plain copy of a named parameter / capture / field of one
    (`strict`, `arg1.strict`, `settings.strict`, `(*self).strict`), else None"""
    d = f.deep(op)
    if any(c in d for c in " (,[+-<>&") and not re.match(r"^\(\*[\w.]+\)\.[\w.]+$", d):
        return None
    d = d.replace("(*", "").replace(")", "")
    m = re.match(r"^(?:[A-Za-z_]\w*\.)*([a-z_][a-z0-9_]*)$", d)
    if not m or re.match(r"^(arg\d+|self|_\d+)$", m.group(1)):
        return None
    return m.group(1)


def _op_ty(f, op):
    if op.get("k") in ("copy", "move") and not op["p"]["proj"]:
        return f.rec["locals"][op["p"]["local"]]
    return None


def anchor_files(pid):
    import json as _json
    from ..facts import VERIF as _V
    for l in open(os.path.join(_V, "properties.jsonl")):
        d = _json.loads(l)
        if d["id"] == pid:
            return d["anchors"]["files"]
    raise EngineError("no anchors for " + pid)


def rule_named_plumbing(ctx, mir, pid, rid, floor, crate_prefix="src/"):
    """Swapped-argument / swapped-field lint over the functions defined in the property's anchored files."""
    import fnmatch
    files = anchor_files(pid)
    r = ctx.rule(rid, "values reach the parameter / field they are named after (functions in the files this property is anchored in): a named parameter, capture or field handed to a callee that has a like-named parameter of the same type goes in that position; a struct literal does not cross two like-typed fields (a: x.b, b: x.a) nor fill a bool field from its sibling's source", "E-MIR operand provenance vs callee / field names", floor=floor)
    bodies = {}
    for f in mir.fns:
        if not mir.is_test_fn(f):
            bodies.setdefault(f.key, []).append(f)
    def in_scope(f):
        loc = (f.loc() or "").split(":")[0]
        if "/c-api/" in loc:
            loc = loc[loc.index("/c-api/") + 1:]
        return any(fnmatch.fnmatch(loc, pat.replace("**/", "*")) or fnmatch.fnmatch(loc, pat) for pat in files)
    n_ok = 0
    n_fns = 0
    for f in mir.fns:
        if mir.is_test_fn(f) or not in_scope(f):
            continue
        n_fns += 1
        for bi, t in f.calls(r"."):
            ck = callee_key(t)
            cands = bodies.get(ck) or []
            if len(cands) != 1 or cands[0].rec["arg_count"] != len(t["args"]):
                continue
            g = cands[0]
            pn = [g.name_of(i) for i in range(1, g.rec["arg_count"] + 1)]
            pt = [g.rec["locals"][i] for i in range(1, g.rec["arg_count"] + 1)]
            for i, a in enumerate(t["args"]):
                nm = _plain_name(f, a)
                if nm is None:
                    continue
                if pn[i] == nm:
                    n_ok += 1
                    continue
                if nm in pn and pt[pn.index(nm)] == pt[i]:
                    key = f"{f.key}|{ck}|{nm}"
                    r.inst(key, sample={"argument": nm, "position": i, "callee_parameters": pn})
                    r.violate(key, f"{f.key} passes `{nm}` to {ck} in the position of the parameter `{pn[i]}`; the callee's parameter `{nm}` (same type {pt[i]}) is at position {pn.index(nm)}: two like-typed values are crossed", f.loc())
        for b in f.blocks:
            if b["cleanup"]:
                continue
            for st in b["stmts"]:
                if st["k"] != "assign" or st["rv"]["k"] != "agg" or not st["rv"].get("fields"):
                    continue
                flds = st["rv"]["fields"]
                if any(x.isdigit() for x in flds):
                    continue
                src = {fl: (_plain_name(f, o), _op_ty(f, o)) for fl, o in zip(flds, st["rv"]["ops"])}
                for a, (nm, ty) in src.items():
                    if nm is None:
                        continue
                    if nm == a:
                        n_ok += 1
                        continue
                    if nm in src and ty is not None and src[nm][1] == ty:
                        other = src[nm][0]
                        if other == a or (ty == "bool" and other == nm):
                            key = f"{f.key}|{st['rv'].get('name')}|{a}"
                            r.inst(key, sample={"field": a, "filled_from": nm, "sibling_filled_from": other})
                            r.violate(key, f"{f.key} fills {st['rv'].get('name')}.{a} from `{nm}` while .{nm} is filled from `{other}`: two like-typed ({ty}) fields are crossed", f.loc())
    r.inst("scope", sample={"anchored_files": files, "functions": n_fns})
    r.count("named_values_in_place", n_ok)
    r.count("functions_in_scope", n_fns)
    for k in range(min(n_ok, 400)):
        r.inst("in-place#%d" % k, nontrivial=False)
    if n_ok < floor:
        raise EngineError(f"{rid}: only {n_ok} named values found in place in the anchored files (expected at least {floor})")
