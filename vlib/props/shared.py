"""Helpers shared by the property modules."""
import os
import re
from ..facts import REPO
from ..sm import describe_leaf

_state_loc = None


def state_loc(state):
    """file:line of a state's definition in the DSL tables (diagnostics only, never a key)."""
    global _state_loc
    if _state_loc is None:
        _state_loc = {}
        base = os.path.join(REPO, "src/parser/state_machine/syntax")
        for dp, dn, fn in os.walk(base):
            for f in fn:
                p = os.path.join(dp, f)
                try:
                    for i, line in enumerate(open(p, encoding="utf-8", errors="replace"), 1):
                        m = re.match(r"\s*([a-z_0-9]+_state)\s*(<--.*)?\{", line)
                        if m:
                            _state_loc[m.group(1)] = "%s:%d" % (os.path.relpath(p, REPO), i)
                except OSError:
                    pass
    return _state_loc.get(state.split("#")[0], "src/parser/state_machine/syntax/ (state %s)" % state)


def leaf_str(state, leaf):
    return describe_leaf(state, leaf)
