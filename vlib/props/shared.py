"""Helpers shared by the property modules."""
import os
import re
from ..facts import REPO
from ..sm import describe_leaf

_state_loc = None


def state_loc(state):
    """file:line of a state's definition in the DSL tables (diagnostics only, never a key)."""
    global _state_loc
    if _state_loc is None:
        _state_loc = {}
        base = os.path.join(REPO, "src/parser/state_machine/syntax")
        for dp, dn, fn in os.walk(base):
            for f in fn:
                p = os.path.join(dp, f)
                try:
                    for i, line in enumerate(open(p, encoding="utf-8", errors="replace"), 1):
                        m = re.match(r"\s*([a-z_0-9]+_state)\s*(<--.*)?\{", line)
                        if m:
                            _state_loc[m.group(1)] = "%s:%d" % (os.path.relpath(p, REPO), i)
                except OSError:
                    pass
    return _state_loc.get(state.split("#")[0], "src/parser/state_machine/syntax/ (state %s)" % state)


def leaf_str(state, leaf):
    return describe_leaf(state, leaf)


def check_witness(r, name, what):
    """E-TYPE: the compile_fail witness must fail to compile (with the stated error code) and its twin must compile."""
    from ..facts import witness_results, EngineError
    res = witness_results()
    cf = res.get(name + ":compile_fail")
    tw = res.get(name + ":twin")
    r.inst("witness:" + name, sample={"witness": name, "compile_fail": cf, "twin": tw})
    if cf is None or tw is None:
        raise EngineError(f"witness {name} missing from the doctest results")
    if tw != "ok":
        raise EngineError(f"the compiling twin of witness {name} does not compile: the witness would fail for the wrong reason")
    if cf != "ok":
        r.violate("witness:" + name, f"type-level witness no longer holds: {what}", "/verif/witness/src/lib.rs")
