"""C05 Scoped dispatch — bookkeeping clauses."""
import re
from ..mirlib import load, callee_key, guarding_branches
from ..smimpl import index
from ..astlib import walk, walk_path, enclosing_ifs
from ..facts import EngineError
from . import shared_mir as sm

KINDS = {
    # handler vector          capture flag       token variant
    "doctype_handlers": ("DOCTYPES", "Doctype"),
    "comment_handlers": ("COMMENTS", "Comment"),
    "text_handlers": ("TEXT", "TextChunk"),
    "end_tag_handlers": ("NEXT_END_TAG", "EndTag"),
    "element_handlers": ("NEXT_START_TAG", "StartTag"),
}


def calls_on_field(fnnode, method):
    """[(field, node, path)] for self.<field>.<method>(..) calls"""
    out = []
    for n, path in walk_path(fnnode["body"]):
        if n.get("k") == "MethodCall" and n["method"] == method:
            rv = n["recv"]
            if rv.get("k") == "Field" and rv["base"].get("k") == "Path" and rv["base"]["path"] == "self":
                out.append((rv["member"], n, path))
    return out


def run(ctx):
    mir = load()
    idx = index()

    rule_activation_balance(ctx, idx, mir)

    rule_flag_table(ctx, idx, mir)

    # ------------------------------------------------------------------ R05.3
    r = ctx.rule("R05.3", "order: selector-associated handlers are registered before document handlers (so they run first for one token), the charset handler first of all; handler vectors are iterated front to back", "E-MIR + E-AST", floor=4)
    fs = mir.fn("HtmlRewriteController::from_settings")
    sel = [bi for bi, t in fs.calls(r"add_selector_associated_handlers$")]
    doc = [bi for bi, t in fs.calls(r"add_document_content_handlers$")]
    r.inst("registration-order", sample={"selector_loops": len(sel), "document_loops": len(doc)})
    if len(sel) != 1 or len(doc) != 1 or doc[0] not in fs.reachable_blocks(sel[0]) or sel[0] in fs.reachable_blocks(doc[0]):
        r.violate("registration-order", "from_settings no longer registers all selector-associated handlers before the document-level ones: for one token, document handlers would run before selector-scoped ones", fs.loc())
    ch = list(fs.calls(r"::chain$"))
    r.inst("charset-first")
    if len(ch) != 1 or "charset_adjust_handler" not in fs.describe_operand(ch[0][1]["args"][0]) or "element_content_handlers" not in fs.describe_operand(ch[0][1]["args"][1]):
        r.violate("charset-first", "the <meta charset> handler is no longer chained in front of the user's element handlers", fs.loc())
    for nm in ("for_each_active", "do_for_each_active_and_deactivate"):
        f = idx.one(nm, owner="HandlerVec")
        loops = [n for n in walk(f.node["body"]) if n.get("k") == "ForLoop"]
        r.inst("HandlerVec::" + nm + "|forward")
        if len(loops) != 1 or (loops[0]["iter"].get("s") or "").replace(" ", "") != "&mutself.items":
            r.violate("HandlerVec::" + nm + "|forward", f"HandlerVec::{nm} no longer iterates `&mut self.items` front to back (registration order)", "src/rewriter/handlers_dispatcher.rs")

    # ------------------------------------------------------------------ R05.4
    r = ctx.rule("R05.4", "the end handler runs once, after all input: handle_end is called only from DispatcherDelegate::finish, after the final flush; end handlers are consumed", "E-MIR", floor=2)
    callers = sorted(set(f.key for f, bi, t in mir.callers_of(r"TransformController::handle_end$|handle_end\[TransformController\]$") if not mir.is_test_fn(f)))
    r.inst("handle_end|callers", sample={"callers": callers})
    if callers != ["DispatcherDelegate::finish"]:
        r.violate("handle_end|callers", f"handle_end is called from {callers}", None)
    he = idx.one("handle_end", owner="ContentHandlersDispatcher")
    cons = [f for f, n, p in calls_on_field(he.node, "do_for_each_active_and_remove_tail")]
    r.inst("end-handlers|consumed")
    if cons != ["end_handlers"]:
        r.violate("end-handlers|consumed", f"handle_end runs {cons}; the end handlers must be consumed (run exactly once)", "src/rewriter/handlers_dispatcher.rs")
    # document-level handlers are registered active, selector-scoped ones inactive (activated by a match only)
    for fname, want in (("ContentHandlersDispatcher::add_document_content_handlers", "true"), ("ContentHandlersDispatcher::add_selector_associated_handlers", "false")):
        f = mir.fn(fname)
        pushes = list(f.calls(r"HandlerVec::push$"))
        for g in mir.fns:
            if g.key.startswith(fname + "::{closure"):
                pushes += [(bi, t) for bi, t in g.calls(r"HandlerVec::push$")]
        flags = sorted(set(f.describe_operand(t["args"][2]).split(":")[0].replace("const ", "") for bi, t in pushes))
        key = fname.split("::")[-1] + "|initial-activity"
        r.inst(key, sample={"pushes": len(pushes), "flags": flags})
        if len(pushes) < 3 or flags != [want]:
            r.violate(key, f"{fname} registers handlers with initial activity {flags} (expected all `{want}`): document-level handlers (incl. the end handler) must always run, selector-scoped ones only between a match and the element's end tag", f.loc())
    # stop_matching is driven only by elements the VM pops
    callers = sorted(set(f.key.split("::{closure")[0] for f, bi, t in mir.callers_of(r"ContentHandlersDispatcher::stop_matching$") if not mir.is_test_fn(f)))
    r.inst("stop_matching|callers", sample={"callers": callers})
    if callers != ["HtmlRewriteController::handle_end_tag[TransformController]"]:
        r.violate("stop_matching|callers", f"stop_matching is called from {callers}", None)
    callers = sorted(set(f.key.split("::{closure")[0] for f, bi, t in mir.callers_of(r"ContentHandlersDispatcher::start_matching$") if not mir.is_test_fn(f)))
    r.inst("start_matching|callers", sample={"callers": callers})
    if callers != ["HtmlRewriteController::handle_start_tag[TransformController]", "HtmlRewriteController::respond_to_aux_info_request"]:
        r.violate("start_matching|callers", f"start_matching is called from {callers}", None)

    # ------------------------------------------------------------------ R05.5 (shared with C06 R06.2)
    from .c06 import rule_sticky_scratch
    rule_sticky_scratch(ctx, mir, idx, rid="R05.5")

    # ------------------------------------------------------------------ R05.7
    r = ctx.rule("R05.7", "the 'next element can have content' flag is fresh for every matched element: it is written only by start_matching, with match_info.with_content, on every match (not conditionally on with_content or on the presence of a handler), and only read by handle_start_tag", "E-MIR", floor=3)
    ws = [(f2, bi, st) for f2, bi, st in mir.field_writes("ContentHandlersDispatcher", "next_element_can_have_content") if not mir.is_test_fn(f2) and not f2.key.endswith("default[Default]")]
    r.inst("flag|writers", sample={"writers": sorted(set(f2.key for f2, _, _ in ws))})
    if sorted(set(f2.key for f2, _, _ in ws)) != ["ContentHandlersDispatcher::start_matching"]:
        r.violate("flag|writers", f"next_element_can_have_content is written in {sorted(set(f2.key for f2, _, _ in ws))}; expected only start_matching (one write per matched element)", None)
    for f2, bi, st in ws:
        if f2.key != "ContentHandlersDispatcher::start_matching":
            continue
        v = f2.deep(st["rv"]["o"]) if st["rv"]["k"] == "use" else st["rv"]["k"]
        gs = [f2.deep(f2.blocks[sb]["term"]["d"]) for sb in guarding_branches(f2, bi)]
        r.inst("flag|value-and-unconditional", sample={"value": v, "guards": [g[:60] for g in gs]})
        if v != "match_info.with_content" or any("with_content" in g or "handler_idx" in g for g in gs):
            r.violate("flag|value-and-unconditional", f"start_matching sets next_element_can_have_content = {v} under {[g[:50] for g in gs]}: a match without content (void element) that follows a match with content would see the stale `true` - can_have_content(), on_end_tag() and remove() then act on the enclosing element", f2.loc())
    readers = sorted(f2.key for f2 in mir.fns if not mir.is_test_fn(f2) and "ContentHandlersDispatcher.next_element_can_have_content" in sm.fields_read(f2) and f2.key != "ContentHandlersDispatcher::start_matching")
    r.inst("flag|readers", sample={"readers": readers})
    if readers != ["ContentHandlersDispatcher::handle_start_tag"]:
        r.violate("flag|readers", f"next_element_can_have_content is read in {readers}", None)

    # ------------------------------------------------------------------ R05.6 (shared with C06 R06.1)
    # what the tag scanner learned (CDATA permission, text type, last start tag) must survive the switch to the lexer
    # for a matched tag, otherwise scoped handlers see other tokens than document-level ones
    from .c06 import rule_bookmark
    rule_bookmark(ctx, mir, rid="R05.6")

    # ------------------------------------------------------------------ R05.8 (shared with C04 R04.7)
    # match ids decide which handlers are activated for an element
    from .c04 import rule_absolute_indices
    rule_absolute_indices(ctx, mir, rid="R05.8")

    # ------------------------------------------------------------------ R05.9 .. R05.11 (shared)
    # scope boundaries: which elements are open (namespace / self-closing handling) and the VM's recovery stages
    from .c03 import rule_foreign_feedback_table, rule_self_closing_ns, spec_tables
    from ..smimpl import index as _index5
    rule_foreign_feedback_table(ctx, _index5(), spec_tables(), rid="R05.9")
    rule_self_closing_ns(ctx, mir, rid="R05.10")
    from .c04 import rule_pipeline
    rule_pipeline(ctx, mir, rid="R05.11")

    # ------------------------------------------------------------------ R05.12 (shared with C16 R16.3)
    from .c16 import rule_ns_of_tag
    rule_ns_of_tag(ctx, mir, rid="R05.12")

    # ------------------------------------------------------------------ R05.13 (= R03.2), R05.14 (stack directive, clause of R04.5)
    # what counts as an element at all (text-mode switching tags) and where an element's scope ends
    from .c03 import rule_tag_tables
    rule_tag_tables(ctx, _index5(), spec_tables(), rid="R05.13")
    from .c04 import clause_stack_directive
    r = ctx.rule("R05.14", "the scope of a matched element ends where the open-element stack says: Stack::get_stack_directive implements the table (Html: void -> PopImmediately, else Push; foreign: PushIfNotSelfClosing)", "E-ABS", floor=1)
    clause_stack_directive(r, _index5())

    # ------------------------------------------------------------------ R05.15 (generic, scoped to this property's anchors)
    sm.rule_named_plumbing(ctx, mir, "C05", "R05.15", floor=49)

    # ------------------------------------------------------------------ R05.16
    rule_dispatch_unconditional(ctx, mir)

    # ------------------------------------------------------------------ R05.17 (= R03.11)
    # which markup is CDATA text and which is an element depends on the namespace primitives
    from .c03 import rule_ns_primitives
    rule_ns_primitives(ctx, mir, rid="R05.17")

    ctx.not_decided += ["exactly-once delivery over all open/close sequences (needs the selector VM's run-time behaviour)", "text flushed before a tag is reported is rule R02.4 (C02)"]
    return ("Bookkeeping clauses of scoped dispatch read from the expanded syntax tree and MIR: balance and independence of handler activation, "
            "the kind/flag/token table across four functions, registration and iteration order, one-shot consumption of element/end-tag/end handlers.")


def rule_flag_table(ctx, idx, mir, rid="R05.2"):
    ht = idx.one("handle_token", owner="ContentHandlersDispatcher")
    hs = idx.one("handle_start_tag", owner="ContentHandlersDispatcher")
    # ------------------------------------------------------------------ R05.2
    r = ctx.rule(rid, "kind <-> capture flag <-> token: one table is implemented by get_token_capture_flags, handle_token and both to_token impls; one-shot flags are cleared exactly for the two tag kinds", "E-AST", floor=15)
    gf = idx.one("get_token_capture_flags", owner="ContentHandlersDispatcher")
    got = {}
    for n in walk(gf.node["body"]):
        if n.get("k") == "If":
            c = n["cond"]
            if c.get("k") == "MethodCall" and c["method"] == "has_active" and c["recv"].get("k") == "Field":
                fld = c["recv"]["member"]
                fl = [m["right"]["path"].split("::")[-1] for m in walk(n["then"]) if m.get("k") == "Binary" and m["op"] == "|=" and m["right"].get("k") == "Path"]
                got[fld] = fl
    for fld, (flag, tok) in KINDS.items():
        r.inst("flags|" + fld, sample={"vector": fld, "flag": got.get(fld)})
        if got.get(fld) != [flag]:
            r.violate("flags|" + fld, f"get_token_capture_flags requests {got.get(fld)} when {fld} has active handlers, expected [{flag}]: those tokens would not be captured (handlers never fire) or the wrong kind would be", "src/rewriter/handlers_dispatcher.rs")
    extra = set(got) - set(KINDS)
    if extra:
        r.violate("flags|extra", f"get_token_capture_flags has unexpected entries {sorted(extra)}", "src/rewriter/handlers_dispatcher.rs")
    arms = {}
    for n in walk(ht.node["body"]):
        if n.get("k") == "Match":
            for arm in n["arms"]:
                pat = arm["pat"]
                v = (pat.get("path") or "").split("::")[-1]
                flds = [m["recv"]["member"] for m in walk(arm["body"]) if m.get("k") == "MethodCall" and m["recv"].get("k") == "Field" and m["recv"]["base"].get("s") == "self"]
                meths = [m["method"] for m in walk(arm["body"]) if m.get("k") == "MethodCall" and m["recv"].get("k") == "Path" and m["recv"]["path"] == "self"]
                arms[v] = (flds, meths)
    for fld, (flag, tok) in KINDS.items():
        r.inst("dispatch|" + tok, sample={"token": tok, "handled_by": arms.get(tok)})
        a = arms.get(tok)
        if tok == "StartTag":
            if not a or a[1] != ["handle_start_tag"]:
                r.violate("dispatch|" + tok, f"Token::StartTag is dispatched to {a}, expected handle_start_tag", "src/rewriter/handlers_dispatcher.rs")
        elif not a or a[0] != [fld]:
            r.violate("dispatch|" + tok, f"Token::{tok} is dispatched to {a}, expected {fld}", "src/rewriter/handlers_dispatcher.rs")
    # to_token
    tt = [f for f in idx.fns if f.name == "to_token" and f.trait == "ToToken"]
    if len(tt) != 2:
        raise EngineError("anchor: two ToToken impls")
    seen = {}
    for f in tt:
        for n in walk(f.node["body"]):
            if n.get("k") == "Match":
                for arm in n["arms"]:
                    g = arm.get("guard")
                    if g is None:
                        continue
                    flag = [m["path"].split("::")[-1] for m in walk(g) if m.get("k") == "Path" and m["path"].startswith("TokenCaptureFlags::")]
                    ctor = [m["func"]["path"] for m in walk(arm["body"]) if m.get("k") == "Call" and m["func"].get("k") == "Path" and (m["func"]["path"].endswith("::new_token") or m["func"]["path"].startswith("ToTokenResult::Text"))]
                    removed = [m["args"][0]["path"].split("::")[-1] for m in walk(arm["body"]) if m.get("k") == "MethodCall" and m["method"] == "remove" and m["args"] and m["args"][0].get("k") == "Path"]
                    outline = (arm["pat"].get("s") or arm["pat"].get("path") or "")
                    ov = re.findall(r"(StartTag|EndTag|Text|Comment|Doctype)", outline)
                    seen[ov[0] if ov else outline] = (flag, ctor, removed)
    want = {
        "StartTag": (["NEXT_START_TAG"], "StartTag::new_token", ["NEXT_START_TAG"]),
        "EndTag": (["NEXT_END_TAG"], "EndTag::new_token", ["NEXT_END_TAG"]),
        "Text": (["TEXT"], "ToTokenResult::Text", []),
        "Comment": (["COMMENTS"], "Comment::new_token", []),
        "Doctype": (["DOCTYPES"], "Doctype::new_token", []),
    }
    for k, (flag, ctor, removed) in want.items():
        r.inst("to_token|" + k, sample={"outline": k, "got": seen.get(k)})
        g = seen.get(k)
        if not g or g[0] != flag or not any(c.endswith(ctor) or c == ctor for c in g[1]) or g[2] != removed:
            r.violate("to_token|" + k, f"to_token for a {k} lexeme: guard {g[0] if g else None}, constructs {g[1] if g else None}, clears {g[2] if g else None}; expected guard {flag}, {ctor}, clears {removed}", "src/rewritable_units/tokens/capturer/to_token.rs")


def rule_activation_balance(ctx, idx, mir, rid="R05.1"):
    # ------------------------------------------------------------------ R05.1
    r = ctx.rule(rid, "activation is balanced: the handler vectors incremented (under with_content) when an element starts matching are exactly those decremented when it stops, each independently of the others; one-shot element/end-tag handlers are armed once and consumed", "E-AST + E-MIR", floor=6)
    sm.clause_deactivate_counts(r, mir)
    sm_f = idx.one("start_matching", owner="ContentHandlersDispatcher")
    st_f = idx.one("stop_matching", owner="ContentHandlersDispatcher")
    incs = calls_on_field(sm_f.node, "inc_user_count")
    decs = calls_on_field(st_f.node, "dec_user_count")
    def under_with_content(path):
        return any(br == "then" and "with_content" in (i["cond"].get("s") or "") for i, br in enclosing_ifs(path))
    inc_content = sorted(f for f, n, p in incs if under_with_content(p))
    inc_always = sorted(f for f, n, p in incs if not under_with_content(p))
    dec_fields = sorted(f for f, n, p in decs)
    r.inst("balance", sample={"incremented_with_content": inc_content, "incremented_always": inc_always, "decremented": dec_fields})
    if inc_content != dec_fields or not dec_fields:
        r.violate("balance", f"start_matching activates {inc_content} for the content of a matched element but stop_matching deactivates {dec_fields}: a handler would stay active after its element closed (or be switched off too early)", "src/rewriter/handlers_dispatcher.rs")
    for f, n, p in incs + decs:
        which = "start_matching" if (f, n, p) in incs else "stop_matching"
        key = f"{which}|{f}|independent"
        r.inst(key)
        ifs = enclosing_ifs(p)
        in_else = [i for i, br in ifs if br == "else"]
        if in_else:
            r.violate(key, f"{which}: the update of {f} is in the `else` branch of another handler's check ({in_else[0]['cond'].get('s')}): when one selector carries both handlers only one of them is (de)activated", "src/rewriter/handlers_dispatcher.rs")
        # the guard must be the presence of this handler's own locator
        own = [i for i, br in ifs if br == "then" and i["cond"].get("k") == "Let"]
        want = f.replace("_handlers", "_handler_idx")
        if not any(want in (i["cond"]["e"].get("s") or "") for i in own):
            r.violate(key + "|guard", f"{which}: the update of {f} is not guarded by its own locator ({want})", "src/rewriter/handlers_dispatcher.rs")
    r.inst("element-handlers|armed-and-consumed")
    if inc_always != ["element_handlers"]:
        r.violate("element-handlers|armed-and-consumed", f"start_matching arms {inc_always} unconditionally, expected exactly the element handlers", "src/rewriter/handlers_dispatcher.rs")
    hs = idx.one("handle_start_tag", owner="ContentHandlersDispatcher")
    cons = [f for f, n, p in calls_on_field(hs.node, "do_for_each_active_and_deactivate")]
    if cons != ["element_handlers"]:
        r.violate("element-handlers|consumed", f"handle_start_tag consumes {cons} with do_for_each_active_and_deactivate, expected the element handlers (they would run again on the next start tag)", "src/rewriter/handlers_dispatcher.rs")
    # end tag handlers: pushed inactive in handle_start_tag, armed in stop_matching, consumed+removed in handle_token
    pushes = [(f, n) for f, n, p in calls_on_field(hs.node, "push")]
    r.inst("end-tag-handlers|lifecycle")
    ok = len(pushes) == 1 and pushes[0][0] == "end_tag_handlers" and (pushes[0][1]["args"][1].get("s") == "false")
    arm = [f for f, n, p in calls_on_field(st_f.node, "inc_user_count")]
    ht = idx.one("handle_token", owner="ContentHandlersDispatcher")
    rem = [f for f, n, p in calls_on_field(ht.node, "do_for_each_active_and_remove_tail")]
    if not ok or arm != ["end_tag_handlers"] or rem != ["end_tag_handlers"]:
        r.violate("end-tag-handlers|lifecycle", f"end-tag handler lifecycle changed: pushed inactive in handle_start_tag={ok}, armed by stop_matching={arm}, consumed and removed at the end tag={rem}", "src/rewriter/handlers_dispatcher.rs")
    # removed-content counter
    plus = [(n, p) for n, p in walk_path(hs.node["body"]) if n.get("k") == "Binary" and n["op"] == "+=" and "matched_elements_with_removed_content" in (n["left"].get("s") or "")]
    minus = [(n, p) for n, p in walk_path(st_f.node["body"]) if n.get("k") == "Binary" and n["op"] == "-=" and "matched_elements_with_removed_content" in (n["left"].get("s") or "")]
    r.inst("removed-content|counter", sample={"increments": len(plus), "decrements": len(minus)})
    okp = len(plus) == 1 and any("should_remove_content" in (i["cond"].get("s") or "") and br == "then" for i, br in enclosing_ifs(plus[0][1]))
    okm = len(minus) == 1 and any("remove_content" in (i["cond"].get("s") or "") and br == "then" for i, br in enclosing_ifs(minus[0][1]))
    sets = [n for n in walk(hs.node["body"]) if n.get("k") == "Assign" and "remove_content" in (n["left"].get("s") or "") and n["right"].get("s") == "true"]
    if not okp or not okm or len(sets) != 1:
        r.violate("removed-content|counter", "matched_elements_with_removed_content is no longer incremented exactly where elem_desc.remove_content is set and decremented exactly under that flag", "src/rewriter/handlers_dispatcher.rs")
    # user_count arithmetic of HandlerVec: inc/dec touch both the item and the total
    for nm in ("inc_user_count", "dec_user_count"):
        f = idx.one(nm, owner="HandlerVec")
        ops = sorted((n["left"].get("s") or "").replace(" ", "") for n in walk(f.node["body"]) if n.get("k") == "Binary" and n["op"] in ("+=", "-="))
        r.inst("HandlerVec::" + nm, sample={"updates": ops})
        cond = [(n2["left"].get("s") or "").replace(" ", "") for n2, p2 in walk_path(f.node["body"]) if n2.get("k") == "Binary" and n2["op"] in ("+=", "-=") and enclosing_ifs(p2)]
        if cond:
            r.violate("HandlerVec::" + nm + "|unconditional", f"HandlerVec::{nm} updates {cond} only under a condition: every inc_user_count adds one to the item and to the total, so every dec_user_count must take one from both, or has_active() stays true for the rest of the document (capture flags never clear)", "src/rewriter/handlers_dispatcher.rs")
        if ops != ["item.user_count", "self.user_count"]:
            r.violate("HandlerVec::" + nm, f"HandlerVec::{nm} updates {ops}; the per-item count and the total must move together (has_active decides which tokens are captured)", "src/rewriter/handlers_dispatcher.rs")


def rule_dispatch_unconditional(ctx, mir, rid="R05.16"):
    from ..mirlib import guarding_branches as _gb
    r = ctx.rule(rid, "handlers see every captured token, also inside removed content: in token_produced and text_token_produced the call of TransformController::handle_token is not control-dependent on anything (in particular not on emission_enabled, which only gates serialisation)", "E-MIR control dependence", floor=2)
    n = 0
    for nm in ("DispatcherDelegate::token_produced", "DispatcherDelegate::text_token_produced"):
        fs = [f for f in mir.fns if f.key.split("[")[0] == nm and not mir.is_test_fn(f)]
        if len(fs) != 1:
            raise EngineError(f"{rid}: anchor {nm}")
        f = fs[0]
        calls = [bi for bi, t in f.calls(r"handle_token$")]
        r.inst(nm + "|handle_token", sample={"calls": len(calls)})
        if len(calls) != 1:
            r.violate(nm + "|handle_token", f"{nm} calls handle_token {len(calls)} times, expected once", f.loc())
            continue
        n += 1
        gs = [f.deep(f.blocks[sb]["term"]["d"]) for sb in _gb(f, calls[0])]
        if gs:
            r.violate(nm + "|handle_token", f"{nm} dispatches the token to the handlers only when `{gs[0][:100]}`: handlers scoped to removed content (or to whatever the condition excludes) are silently skipped", f.loc())

