"""C04 Selector matching — structural clauses (not the VM's behavioural equivalence)."""
import re
from ..mirlib import load, callee_key
from ..smimpl import index
from ..astlib import walk, walk_path, enclosing_ifs
from ..tagsem import Interp, tag_variants, OTHER
from ..facts import EngineError, VERIF
from . import shared_mir as sm


def variants_in_pat(p):
    """Component::X variants named by a pattern (or-patterns, tuple/struct patterns, refs)"""
    k = p.get("k")
    if k == "POr":
        out = []
        for c in p["cases"]:
            out += variants_in_pat(c)
        return out
    if k == "PRef":
        return variants_in_pat(p["pat"])
    if k in ("PTupleStruct", "PStruct", "PPath"):
        path = p["path"]
        if path.startswith("Component::") or path.startswith("Combinator::") or "NthType::" in path:
            return [path.split("::")[-1] if not path.startswith("Combinator::") else "Combinator::" + path.split("::")[-1]]
    if k == "PIdent" and p["name"][0].isupper():
        return [p["name"]]
    return []


def run(ctx):
    mir = load()
    idx = index()

    # ------------------------------------------------------------------ R04.1
    r = ctx.rule("R04.1", "accepted is a subset of expressible: every selector component the validator accepts has a non-fallback translation in Condition::from / Ast::add_selector (nothing accepted silently becomes Unmatchable); the six attribute operators map to six distinct matcher methods", "E-AST", floor=14)
    vc = idx.one("validate_component", owner="SelectorsParser")
    accepted = set()
    guards = {}
    for n in walk(vc.node["body"]):
        if n.get("k") == "Match" and (n["scrutinee"].get("s") or "") == "component":
            for arm in n["arms"]:
                vs = variants_in_pat(arm["pat"])
                body = (arm["body"].get("s") or "").replace(" ", "")
                ok = body == "Ok(())" or body.startswith("Self::validate_nth") or body.startswith("Self::validate_selectors") or (arm["body"].get("k") == "Match")
                g_ = arm.get("guard")
                for v in vs:
                    if ok and not (v == "Combinator" and g_ is not None and "inside_any_negation" in (g_.get("s") or "")):
                        accepted.add(v)
                        if g_ is not None:
                            guards[v] = (g_.get("s") or "").replace(" ", "")
            break
    cf = [f for f in idx.fns if f.name == "from" and f.owner == "Condition"]
    if len(cf) != 1:
        raise EngineError("anchor: impl From<&Component> for Condition")
    handled = set()
    hguards = {}
    fallback = None
    for n in walk(cf[0].node["body"]):
        if n.get("k") == "Match":
            for arm in n["arms"]:
                vs = variants_in_pat(arm["pat"])
                if not vs:
                    fallback = arm
                    continue
                for v in vs:
                    handled.add(v)
                    if "guard" in arm:
                        hguards.setdefault(v, []).append((arm["guard"].get("s") or "").replace(" ", ""))
            break
    structural = {"Combinator", "Negation"}
    r.analysed["accepted"] = sorted(accepted)
    r.analysed["translated"] = sorted(handled)
    for v in sorted(accepted | handled):
        r.inst("component:" + v, sample={"variant": v, "accepted": v in accepted, "translated": v in handled or v in structural})
    miss = accepted - handled - structural
    if miss:
        r.violate("accepted-not-translated", f"the validator accepts {sorted(miss)} but Condition::from has no translation for them: such selectors silently never match (OnTagNameExpr::Unmatchable) in release builds", "src/selectors_vm/ast.rs")
    if fallback is None or "Unmatchable" not in (fallback["body"].get("s") or str(fallback["body"])):
        pass
    # Nth types
    vn = idx.one("validate_nth", owner="SelectorsParser")
    nth_ok = set()
    for n in walk(vn.node["body"]):
        if n.get("k") == "Match":
            for arm in n["arms"]:
                if (arm["body"].get("s") or "").replace(" ", "") == "Ok(())":
                    nth_ok |= set(v for v in variants_in_pat(arm["pat"]))
    nth_tr = set()
    for g_ in hguards.get("Nth", []):
        m = re.search(r"NthType::(\w+)", g_)
        if m:
            nth_tr.add(m.group(1))
    r.inst("nth-types", sample={"accepted": sorted(nth_ok), "translated": sorted(nth_tr)})
    if nth_ok != nth_tr or not nth_ok:
        r.violate("nth-types", f"validate_nth accepts {sorted(nth_ok)} but Condition::from translates {sorted(nth_tr)}", "src/selectors_vm/ast.rs")
    # combinators accepted == combinators handled in add_selector
    comb_ok = set()
    for n in walk(vc.node["body"]):
        if n.get("k") == "Match" and (n["scrutinee"].get("s") or "") == "combinator":
            for arm in n["arms"]:
                if (arm["body"].get("s") or "").replace(" ", "") == "Ok(())":
                    comb_ok |= set(v for v in variants_in_pat(arm["pat"]))
    ads = idx.one("add_selector", owner="Ast")
    comb_tr = set()
    for n in walk(ads.node["body"]):
        if n.get("k") == "Match":
            for arm in n["arms"]:
                s_ = (arm["pat"].get("s") or "").replace(" ", "")
                m = re.match(r"Component::Combinator\(Combinator::(\w+)\)", s_)
                if m:
                    comb_tr.add("Combinator::" + m.group(1))
    r.inst("combinators", sample={"accepted": sorted(comb_ok), "translated": sorted(comb_tr)})
    if comb_ok != comb_tr or not comb_ok:
        r.violate("combinators", f"the validator accepts combinators {sorted(comb_ok)} but Ast::add_selector handles {sorted(comb_tr)}: an accepted combinator would be folded into the compound selector", "src/selectors_vm/ast.rs")
    # operators
    cp = [f for f in idx.fns if f.name == "compile" and f.owner == "Expr" and f.trait == "Compilable"]
    ops = {}
    for f in cp:
        for n in walk(f.node["body"]):
            if n.get("k") == "Match" and (n["scrutinee"].get("s") or "") == "operator":
                for arm in n["arms"]:
                    v = (arm["pat"].get("path") or "").split("::")[-1]
                    ms = [m["method"] for m in walk(arm["body"]) if m.get("k") == "MethodCall" and m["recv"].get("s") == "m"]
                    ops[v] = ms
    want = {"Equal": "attr_eq", "Includes": "matches_splitted_by_whitespace", "DashMatch": "has_dash_matching_attr", "Prefix": "has_attr_with_prefix", "Suffix": "has_attr_with_suffix", "Substring": "has_attr_with_substring"}
    for k, v in want.items():
        r.inst("operator:" + k, sample={"operator": k, "matcher": ops.get(k)})
        if ops.get(k) != [v]:
            r.violate("operator:" + k, f"attribute operator {k} is compiled to {ops.get(k)}, expected AttributeMatcher::{v}", "src/selectors_vm/compiler.rs")

    # ------------------------------------------------------------------ R04.2
    r = ctx.rule("R04.2", ":not() negates its whole argument: a Predicate is a conjunction of literals, so the components of a nested selector may be added with flipped polarity only when that selector has exactly one simple component, and a list under an even number of negations only when it has exactly one selector", "E-AST", floor=2)
    asc = idx.one("add_selector_components", owner="Predicate")
    # conjunction fact: Instruction::exec / try_exec use .all()
    conj = False
    for f in idx.fns:
        if f.owner == "Instruction" and f.name in ("exec", "try_exec_without_attrs", "complete_exec_with_attrs"):
            if any(m.get("k") == "MethodCall" and m["method"] == "all" for m in walk(f.node["body"])):
                conj = True
    if not conj:
        raise EngineError("R04.2: could not confirm that a predicate is evaluated as a conjunction (.all())")
    src = str(asc.node["body"])
    has_len_guard = any(n.get("k") == "MethodCall" and n["method"] in ("len", "is_empty", "count") for n in walk(asc.node["body"])) or "len" in (str(vc.node["body"]) if False else "")
    # guard may also live in the validator: Negation arm with a length condition
    vguard = False
    for n in walk(vc.node["body"]):
        if n.get("k") == "Match":
            for arm in n["arms"]:
                if "Negation" in variants_in_pat(arm["pat"]):
                    if any(m.get("k") == "MethodCall" and m["method"] in ("len", "count") for m in walk(arm)):
                        vguard = True
    vs = idx.one("validate_selectors", owner="SelectorsParser")
    if any(m.get("k") == "MethodCall" and m["method"] in ("len", "count") for m in walk(vs.node["body"])):
        vguard = True
    loops = [n for n in walk(asc.node["body"]) if n.get("k") == "ForLoop"]
    r.inst("compound-under-negation", sample={"loops_over_components": len(loops), "length_guard": has_len_guard or vguard})
    if not (has_len_guard or vguard):
        r.violate("add_selector_components|compound-under-negation", "every simple component of a compound selector inside :not() is added to the conjunction with negated polarity (De Morgan violated): `:not(div.foo)` is compiled as `:not(div):not(.foo)` and matches only elements that are neither div nor .foo", "src/selectors_vm/ast.rs")
    r.inst("list-under-double-negation")
    if not (has_len_guard or vguard):
        r.violate("add_selector_components|list-under-double-negation", "a selector list under an even number of negations is added as a conjunction: `:not(:not(div, .foo))` is compiled as `div.foo` instead of `div, .foo`", "src/selectors_vm/ast.rs")

    # ------------------------------------------------------------------ R04.3
    r = ctx.rule("R04.3", "names compare ASCII case-insensitively on both sides: attribute names given to the matcher are lower-case constants or lower-cased literals and the document side is lower-cased in find; element names compare through LocalName equality", "E-MIR + E-AST", floor=5)
    # the element-name hash must invalidate itself when the 64-bit word is full: guard shift + per-character shift == 64
    lu = mir.fn("LocalNameHash::update")
    shr = []; shl = []
    def _const_val(txt):
        nums = [int(x) for x in re.findall(r"const (\d+)_", txt)]
        if len(nums) == 1:
            return nums[0]
        if len(nums) == 2 and "Sub" in txt:
            return nums[0] - nums[1]
        if len(nums) == 2 and "Mul" in txt:
            return nums[0] * nums[1]
        return None
    for b_ in lu.blocks:
        for st in b_["stmts"]:
            if st["k"] == "assign" and st["rv"]["k"] == "bin" and st["rv"]["op"].startswith("Shr"):
                shr.append(_const_val(lu.deep(st["rv"]["b"])))
            if st["k"] == "assign" and st["rv"]["k"] == "bin" and st["rv"]["op"].startswith("Shl"):
                shl.append(_const_val(lu.deep(st["rv"]["b"])))
    r.inst("LocalNameHash::update|overflow-guard", sample={"guard_shift": shr, "char_shift": sorted(set(shl))})
    if len(shr) != 1 or len(set(shl)) != 1 or None in shr or None in shl or shr[0] + shl[0] != 64:
        r.violate("LocalNameHash::update|overflow-guard", f"LocalNameHash::update tests the top bits with `h >> {shr}` but shifts characters in by {sorted(set(shl))} bits: the sum must be 64, otherwise a character is shifted into a full word and different long element names (13 characters) get equal hashes - type selectors, :not(name) and end-tag matching then confuse them", lu.loc())
    # case-insensitive substring search must look for both cases of the needle's first byte
    cl0 = [g for g in mir.fns if g.key == "AttributeMatcher::has_attr_with_substring::{closure#0}"]
    r.inst("has_attr_with_substring|needle-cases")
    ok_ = False
    if cl0:
        g = cl0[0]
        lows = [bi for bi, t in g.calls(r"u8::to_ascii_lowercase$")]
        ups = [bi for bi, t in g.calls(r"u8::to_ascii_uppercase$")]
        for b_ in g.blocks:
            for st in b_["stmts"]:
                if st["k"] == "assign" and st["rv"]["k"] == "agg" and st["rv"].get("what") == "closure":
                    inner = [h for h in mir.fns if h.path == st["rv"]["name"]]
                    if inner and list(inner[0].calls(r"memchr2$")):
                        caps = [g.deep(o) for o in st["rv"]["ops"]]
                        if any("to_ascii_lowercase(" in c for c in caps) and any("to_ascii_uppercase(" in c for c in caps) and lows and ups:
                            ok_ = True
    if not ok_:
        r.violate("has_attr_with_substring|needle-cases", "the case-insensitive `*=` search no longer scans for both the lower-case and the upper-case form of the needle's first byte (memchr2(lo, up, ..)): `[foo*=\"Bar\" i]` would miss `foo=\"xbar\"`", cl0[0].loc() if cl0 else None)
    sm.clause_eq_case_insensitive(r, mir)
    am = {f.name: f for f in idx.fns if f.owner == "AttributeMatcher"}
    find = am.get("find")
    if find is None:
        raise EngineError("anchor AttributeMatcher::find")
    low = [m for m in walk(find.node["body"]) if m.get("k") == "MethodCall" and m["method"] == "to_ascii_lowercase"]
    r.inst("find|document-side-lowercased")
    if not low:
        r.violate("find|document-side-lowercased", "AttributeMatcher::find no longer lower-cases the document's attribute name before comparing", "src/selectors_vm/attribute_matcher.rs")
    # callers of find/get_value/has_attribute: arguments are ID_ATTR/CLASS_ATTR constants or operand.name / compiled name
    m_ = mir
    for f in m_.fns:
        if f.owner != "AttributeMatcher" or m_.is_test_fn(f):
            continue
        for bi, t in f.calls(r"AttributeMatcher::(find|get_value)$"):
            d = f.describe_operand(t["args"][1])
            key = f"{f.key}|{callee_key(t)}"
            ok = bool(re.search(r"ID_ATTR|CLASS_ATTR|lowercased_name|operands?\.name|Box::deref.*name|name", d))
            r.inst(key, sample={"site": f.key, "name_arg": d})
            if not ok:
                r.violate(key, f"{f.key} looks an attribute up by `{d}`, which is not a lower-cased name", f.loc())
    cl = [f for f in idx.fns if f.name == "compile_operands"]
    r.inst("compile_operands|name-lowercased")
    ok = cl and any(m.get("k") == "Call" and (m["func"].get("path") or "").endswith("compile_literal_lowercase") and (m["args"][1].get("s") == "name") for m in walk(cl[0].node["body"]))
    if not ok:
        r.violate("compile_operands|name-lowercased", "attribute names of comparison selectors are no longer lower-cased at compile time", "src/selectors_vm/compiler.rs")
    # only names are case-folded at compile time: values keep their case (the `i` flag decides at match time)
    low_sites = []
    for f in mir.fns:
        if mir.is_test_fn(f):
            continue
        for bi, t in f.calls(r"compile_literal_lowercase$"):
            low_sites.append((f.key, f.deep(t["args"][1])))
    val_sites = []
    for f in mir.fns:
        if f.key.endswith("compile_operands") and not mir.is_test_fn(f):
            for bi, t in f.calls(r"compile_literal$"):
                val_sites.append(f.deep(t["args"][1]))
    r.inst("compile_operands|value-keeps-case", sample={"lowercased_operands": low_sites, "as_is_operands": val_sites})
    if [d for _, d in low_sites] != ["name"] or val_sites != ["value"]:
        r.violate("compile_operands|value-keeps-case", f"literals lower-cased at compile time: {low_sites}; compiled as written in compile_operands: {val_sites} - expected exactly the attribute name to be folded and the value to be kept: `[a=\"FooBar\"]` would otherwise match `foobar` and miss `FooBar`", "src/selectors_vm/compiler.rs")
    cll = [f for f in idx.fns if f.name == "compile_literal_lowercase"]
    r.inst("compile_literal_lowercase")
    if not cll or not any(m.get("k") == "MethodCall" and m["method"] == "make_ascii_lowercase" for m in walk(cll[0].node["body"])):
        r.violate("compile_literal_lowercase", "compile_literal_lowercase no longer lower-cases", "src/selectors_vm/compiler.rs")
    ce = [f for f in idx.fns if f.name == "from" and f.owner == "Condition"][0]
    src_ = str(ce.node["body"])
    r.inst("attribute-exists|lower")
    if "local_name_lower" not in src_:
        r.violate("attribute-exists|lower", "[attr] selectors no longer use the parser's lower-cased attribute name", "src/selectors_vm/ast.rs")
    eqf = [f for f in m_.fns if f.key == "LocalName::eq[PartialEq]" and "LocalName<'_>" in f.path or f.key == "LocalName::eq[PartialEq]"]
    r.inst("LocalName::eq", sample={"impls": len(eqf)})
    ok = any(list(f.calls(r"eq_ignore_ascii_case$")) for f in eqf)
    if not ok:
        r.violate("LocalName::eq", "LocalName equality no longer compares byte names ASCII case-insensitively", "src/html/local_name.rs")

    # ------------------------------------------------------------------ R04.4
    r = ctx.rule("R04.4", "sibling counters and the open-element stack: add_child is the first effect of exec_for_start_tag; pop_up_to unwinds the typed counters and prunes hereditary jumps before draining, and every drained item decrements open_name_counts; push_item is the only inserter", "E-MIR", floor=5)
    ex = mir.fn("SelectorMatchingVm::exec_for_start_tag")
    ac = [bi for bi, t in ex.calls(r"Stack::add_child$")]
    others = [bi for bi, t in ex.calls(r"ExecutionCtx::new$|get_stack_directive$|exec_without_attrs$|into_owned")]
    r.inst("add_child|first")
    if len(ac) != 1 or not all(ex.dominates(ac[0], o) for o in others):
        r.violate("add_child|first", "exec_for_start_tag does not count the new child before matching (nth-child/nth-of-type would see the previous sibling's index)", ex.loc())
    pu = mir.fn("Stack::pop_up_to")
    pt = [bi for bi, t in pu.calls(r"TypedChildCounterMap::pop_to$")]
    rt = [bi for bi, t in pu.calls(r"Vec.*::retain$")]
    dr = [bi for bi, t in pu.calls(r"LimitedVec::drain$")]
    r.inst("pop_up_to|order", sample={"pop_to": len(pt), "retain": len(rt), "drain": len(dr)})
    if len(pt) != 1 or len(rt) != 1 or len(dr) != 1 or not pu.dominates(rt[0], dr[0]) or not (pu.dominates(pt[0], dr[0]) or pt[0] in pu.reachable_blocks(0, avoid=[dr[0]])):
        r.violate("pop_up_to|order", "pop_up_to must unwind typed child counters and prune active hereditary jumps before draining the popped items", pu.loc())
    dec = [st for b in pu.blocks for st in b["stmts"] if st["k"] == "assign" and st["rv"]["k"] == "bin" and st["rv"]["op"].startswith("Sub")]
    r.inst("pop_up_to|open_name_counts")
    if not dec or not list(pu.calls(r"raw_entry_mut|RawEntryBuilderMut")):
        r.violate("pop_up_to|open_name_counts", "pop_up_to no longer decrements open_name_counts for each popped element (a later end tag of that name would unwind the stack wrongly or be ignored)", pu.loc())
    ins = sorted(set(f.key for f in mir.fns if not mir.is_test_fn(f) and ("Stack.open_name_counts" in sm.fields_read(f)) and list(f.calls(r"::entry$|or_default$|or_insert|HashMap.*::insert$"))))
    pushers = sorted(set(f.key for f, bi, t in mir.callers_of(r"LimitedVec::push$") if not mir.is_test_fn(f)))
    r.inst("push_item|only-inserter", sample={"LimitedVec::push callers": pushers, "open_name_counts inserters": ins})
    if pushers != ["Stack::push_item"] or ins != ["Stack::push_item"]:
        r.violate("push_item|only-inserter", f"stack items are pushed from {pushers} and open_name_counts is inserted into from {ins}; push_item must be the only place (the three structures must stay in step)", None)
    sm.clause_open_name_counts_shrinks(r, mir)
    sm.clause_raw_entry_compares_keys(r, mir)
    callers = sorted(set(f.key.split("::{closure")[0] for f, bi, t in mir.callers_of(r"Stack::pop_up_to$") if not mir.is_test_fn(f)))
    r.inst("pop_up_to|callers", sample={"callers": callers})
    if callers != ["SelectorMatchingVm::exec_for_end_tag"]:
        r.violate("pop_up_to|callers", f"pop_up_to is called from {callers}", None)

    # an end tag can close several levels at once (mis-nested input): counter unwinding must iterate
    cl = [g for g in mir.fns if g.key.startswith("TypedChildCounterMap::pop_to::{closure")]
    r.inst("pop_to|iterates")
    ok = False
    for g in cl:
        for bi, t in g.calls(r"Vec::pop$"):
            nxt = g.succ(bi)
            if any(bi in g.reachable_blocks(n) for n in nxt):
                ok = True
    if not ok:
        r.violate("pop_to|iterates", "TypedChildCounterMap::pop_to no longer pops in a loop: an end tag that closes more than one nesting level leaves stale nth-of-type counters of the deeper levels in place", cl[0].loc() if cl else None)

    rule_absolute_indices(ctx, mir)

    # ------------------------------------------------------------------ R04.9
    r = ctx.rule("R04.9", "an+b: NthChild::has_index agrees with `exists n >= 0: step*n + offset == index` on the sign domain — abstract interpretation of the expanded source over signs of (index - offset, step): a definite answer of the code must be a possible answer of the definition", "E-AST (abstract interpretation, sign domain)", floor=9)
    from ..signeval import SignEval, NEG, ZERO, POS
    hi = idx.one("has_index", owner="NthChild")
    REF = {  # (sign of step, sign of index-offset) -> possible truth values of `exists n>=0: step*n == index-offset`
        (ZERO, ZERO): {True}, (ZERO, NEG): {False}, (ZERO, POS): {False},
        (POS, NEG): {False}, (POS, ZERO): {True}, (POS, POS): {True, False},
        (NEG, POS): {False}, (NEG, ZERO): {True}, (NEG, NEG): {True, False},
    }
    lets = [st["pat"].get("name") for st in hi.node["body"] if st.get("k") == "Local" and st["pat"].get("k") == "PIdent"]
    diff_name = "offsetted" if "offsetted" in lets else (lets[0] if lets else None)
    for (st_, off), want in sorted(REF.items()):
        got = SignEval(havoc={diff_name: frozenset([off]), "step": frozenset([st_])}).run(hi.node["body"], {}) if diff_name else None
        got = set(got) if got else {True, False}
        key = "step=%s|index-offset=%s" % (st_, off)
        r.inst(key, sample={"step": st_, "index_minus_offset": off, "code": sorted(got), "definition": sorted(want)})
        if not (got & want):
            r.violate(key, f"NthChild::has_index answers {sorted(got)} when step is {st_} and index - offset is {off}; by `exists n >= 0: step*n + offset == index` the answer is {sorted(want)}" + (" (n = 0: `:nth-child(-n+3)` must match the 3rd child)" if off == ZERO else ""), "src/selectors_vm/ast.rs")

    # ------------------------------------------------------------------ R04.8
    r = ctx.rule("R04.8", "combinator routing agrees across the three layers: `>` fills AstNode.children and ` ` fills AstNode.descendants (Ast::add_selector); the compiler turns children into ExecutionBranch.jumps and descendants into hereditary_jumps; the VM stores them in the like-named StackItem fields, tries `jumps` of the parent (last stack item) only and `hereditary_jumps` of every open ancestor (Stack::active_hereditary_jumps, fed by push_item from the pushed item's hereditary_jumps)", "E-AST + E-MIR field flow", floor=7)
    ads = idx.one("add_selector", owner="Ast")
    arms = {}
    for n in walk(ads.node["body"]):
        if n.get("k") == "Match":
            for a in n["arms"]:
                ps = (a["pat"].get("s") or "").replace(" ", "")
                for comb in ("Child", "Descendant", "NextSibling", "LaterSibling"):
                    if "Combinator::" + comb in ps:
                        flds = sorted(set(x.get("member") for x in walk(a["body"]) if x.get("k") == "Field" and x.get("member") in ("children", "descendants")))
                        arms[comb] = flds
    for comb, want in (("Child", ["children"]), ("Descendant", ["descendants"])):
        r.inst("ast|" + comb, sample={"combinator": comb, "fields": arms.get(comb)})
        if arms.get(comb) != want:
            r.violate("ast|" + comb, f"Ast::add_selector files the right-hand side of the {comb} combinator under {arms.get(comb)} instead of {want}: `a > b` and `a b` would be confused", "src/selectors_vm/ast.rs")
    cn = mir.fn("Compiler::compile_nodes")
    aggs = [st["rv"] for b in cn.blocks for st in b["stmts"] if st["k"] == "assign" and st["rv"]["k"] == "agg" and (st["rv"].get("name") or "").endswith("ExecutionBranch")]
    r.inst("compiler|ExecutionBranch", sample={"aggregates": len(aggs)})
    if len(aggs) != 1:
        r.violate("compiler|ExecutionBranch", "Compiler::compile_nodes no longer builds exactly one ExecutionBranch per node", cn.loc())
    else:
        d = dict(zip(aggs[0]["fields"], [cn.deep(o) for o in aggs[0]["ops"]]))
        for fld, src_ in (("jumps", "children"), ("hereditary_jumps", "descendants")):
            other = "descendants" if src_ == "children" else "children"
            r.inst("compiler|" + fld)
            v = d.get(fld, "")
            if "compile_descendants" not in v or ("." + src_) not in v or ("." + other) in v:
                r.violate("compiler|" + fld, f"ExecutionBranch.{fld} is compiled from `{v[-80:]}` instead of the node's {src_}", cn.loc())
    ab = mir.fn("ExecutionCtx::add_execution_branch")
    pushes = [(ab.deep(t["args"][0]), ab.deep(t["args"][1])) for bi, t in ab.calls(r"Vec::push$")]
    for fld in ("jumps", "hereditary_jumps"):
        r.inst("vm|store|" + fld)
        ok = any(dst.endswith("stack_item." + fld) and ("branch." + fld + " ") in src_ + " " for dst, src_ in pushes)
        if not ok:
            r.violate("vm|store|" + fld, f"add_execution_branch does not store branch.{fld} in stack_item.{fld} (stores: {pushes})", ab.loc())
    tj = mir.fn("SelectorMatchingVm::try_exec_jumps_without_attrs")
    src_ = [tj.deep(t["args"][0]) for bi, t in tj.calls(r"enumerate$")]
    r.inst("vm|jumps-of-parent", sample={"iterates": src_})
    if len(src_) != 1 or "last(" not in src_[0] or not src_[0].rstrip(")").endswith(".jumps"):
        r.violate("vm|jumps-of-parent", f"child-combinator jumps must be taken from the last stack item (the parent) only; iterates {src_}", tj.loc())
    th = mir.fn("SelectorMatchingVm::try_exec_hereditary_jumps_without_attrs")
    src_ = [th.deep(t["args"][0]) for bi, t in th.calls(r"enumerate$")]
    r.inst("vm|hereditary-of-ancestors", sample={"iterates": src_})
    if len(src_) != 1 or "active_hereditary_jumps" not in src_[0]:
        r.violate("vm|hereditary-of-ancestors", f"descendant-combinator jumps must come from Stack::active_hereditary_jumps (all open ancestors); iterates {src_}", th.loc())
    pi = mir.fn("Stack::push_item")
    feeds = [(pi.deep(t["args"][0]), " ".join(pi.deep(a) for a in t["args"][1:])) for bi, t in pi.calls(r"Vec::push$|Vec::extend\w*$|extend\[Extend\]$")]
    r.inst("vm|active-fed-by-push_item", sample={"feeds": feeds})
    if not any("active_hereditary_jumps" in dst and "hereditary_jumps" in src2 for dst, src2 in feeds):
        r.violate("vm|active-fed-by-push_item", f"Stack::push_item no longer adds the pushed item's hereditary_jumps to active_hereditary_jumps ({feeds}): descendant combinators would stop matching below the first level", pi.loc())

    # :nth-child counts all element siblings, :nth-of-type only same-named ones (and must switch the typed counters on)
    nth = {}
    for fdef in idx.fns:
        if fdef.name != "compile":
            continue
        for n in walk(fdef.node["body"]):
            if n.get("k") == "Match":
                for a in n["arms"]:
                    ps = (a["pat"].get("s") or "").replace(" ", "")
                    for v in ("NthChild", "NthOfType"):
                        if "OnTagNameExpr::" + v in ps:
                            flds = sorted(set(x.get("member") for x in walk(a["body"]) if x.get("k") == "Field" and x.get("member") in ("cumulative", "typed")))
                            enables = any(x.get("k") == "Assign" and "enable_nth_of_type" in (x.get("s") or "") and "true" in (x.get("s") or "") for x in walk(a["body"]))
                            nth[v] = (flds, enables)
    for v, want in (("NthChild", ["cumulative"]), ("NthOfType", ["typed"])):
        r.inst("nth|" + v, sample={"variant": v, "reads": nth.get(v)})
        if v not in nth or nth[v][0] != want or (v == "NthOfType" and not nth[v][1]):
            r.violate("nth|" + v, f"the compiled test for {v} reads {nth.get(v)} (expected the {want[0]} counter" + (" and enable_nth_of_type = true" if v == "NthOfType" else "") + ")", "src/selectors_vm/compiler.rs")

    # ------------------------------------------------------------------ R04.5
    r = ctx.rule("R04.5", "void / self-closing: HTML elements are popped immediately iff void, foreign elements are pushed iff not self-closing", "E-AST", floor=3)
    from .c16 import clause_void_list
    clause_void_list(r, idx)
    clause_stack_directive(r, idx)
    ex_src = idx.one("exec_for_start_tag", owner="SelectorMatchingVm")
    arms = {}
    for n in walk(ex_src.node["body"]):
        if n.get("k") == "Match":
            for arm in n["arms"]:
                arms[(arm["pat"].get("s") or "").split("::")[-1].strip()] = (arm["body"].get("s") or str(arm["body"]))[:200].replace(" ", "")
    r.inst("directive-use", sample={k: v[:60] for k, v in arms.items()})
    if not ("PopImmediately" in arms and "with_content=false" in arms["PopImmediately"]):
        r.violate("directive-use", "a void element is no longer executed with with_content = false (its handlers would stay active for following siblings)", "src/selectors_vm/mod.rs")
    ai = mir.fn("SelectorMatchingVm::exec_after_immediate_aux_info_request")
    w = [ai.describe_operand(st["rv"]["o"]) if st["rv"]["k"] == "use" else (st["rv"]["k"] + ":" + st["rv"].get("op", "") + ":" + ai.describe_operand(st["rv"].get("o", {"k": "x"})) if st["rv"]["k"] == "un" else st["rv"]["k"]) for f2, bi, st in mir.field_writes("ExecutionCtx", "with_content") if f2 is ai]
    r.inst("foreign|self-closing", sample={"with_content": w})
    if not w or not any("self_closing" in x and "Not" in x for x in w):
        r.violate("foreign|self-closing", "in foreign content with_content is no longer !self_closing", ai.loc())

    rule_pipeline(ctx, mir)

    # ------------------------------------------------------------------ R04.10 / R04.11 (shared with C03 R03.8, C16 R16.3)
    # the namespace the simulator reports decides whether `/>` closes an element, i.e. the tree shape selectors match on
    from .c03 import rule_foreign_feedback_table, rule_self_closing_ns, spec_tables
    rule_foreign_feedback_table(ctx, idx, spec_tables(), rid="R04.10")
    from .c16 import rule_ns_of_tag
    rule_ns_of_tag(ctx, mir, rid="R04.11")

    from .c03 import rule_ns_primitives
    rule_ns_primitives(ctx, mir, rid="R04.12")

    # ------------------------------------------------------------------ R04.13 (generic, scoped to this property's anchors)
    sm.rule_named_plumbing(ctx, mir, "C04", "R04.13", floor=77)

    # ------------------------------------------------------------------ R04.14
    rule_hash_codes(ctx, mir, idx)

    # ------------------------------------------------------------------ R04.15 (= R03.7), R04.16 (= R03.1)
    # which elements are open (and with which attributes) is what the VM matches on
    from .c03 import rule_self_closing_ns, rule_product
    rule_self_closing_ns(ctx, mir, rid="R04.15")
    from ..smgraph import Graph as _G4, automaton as _a4
    _aut4 = _a4()
    rule_product(ctx, _G4(_aut4), _aut4, rid="R04.16")

    ctx.not_decided += ["correctness of the compiled program (prefix sharing, jumps, recovery points) against CSS semantics for all selector sets x documents: a behavioural equivalence out of reach of this technique",
                        "the arithmetic of NthChild::has_index (value-level; e.g. sign handling for negative steps)"]
    return ("Structural clauses only: validator/translator agreement over the selectors crate's Component, Combinator and NthType variants, the "
            "negation-over-conjunction soundness condition (known finding), name case folding on both sides, stack/counter maintenance order, "
            "the void/self-closing directive table and the three-stage matching pipeline with its recovery functions.")


def rule_pipeline(ctx, mir, rid="R04.6"):
    # ------------------------------------------------------------------ R04.6
    r = ctx.rule(rid, "matching pipeline: every start tag runs entry points, then the parent's jumps, then the active hereditary jumps; after an attribute bail-out in stage k the recovery resumes stage k and runs every later stage", "E-MIR call-sequence", floor=5)
    STAGES = ["SelectorMatchingVm::exec_instr_set_with_attrs", "SelectorMatchingVm::exec_jumps_with_attrs", "SelectorMatchingVm::exec_hereditary_jumps_with_attrs"]
    def seq(fn):
        f = mir.fn(fn)
        calls = [(bi, callee_key(t)) for bi, t in f.calls() if callee_key(t) in STAGES]
        # order by dominance
        calls.sort(key=lambda x: len(f.dominators()[x[0]]))
        return f, [c for _, c in calls]
    for fn, want in (("SelectorMatchingVm::exec_after_immediate_aux_info_request", STAGES),
                     ("SelectorMatchingVm::recover_after_bailout_in_entry_points", STAGES),
                     ("SelectorMatchingVm::recover_after_bailout_in_jumps", STAGES[1:]),
                     ("SelectorMatchingVm::recover_after_bailout_in_hereditary_jumps", STAGES[2:])):
        f, got = seq(fn)
        r.inst(fn, sample={"fn": fn, "stages": [g.split("::")[-1] for g in got]})
        if got != want:
            r.violate(fn, f"{fn.split('::')[-1]} runs {[g.split('::')[-1] for g in got]}, expected {[w.split('::')[-1] for w in want]}: selectors pending in a later stage (e.g. descendant selectors of open ancestors) are not evaluated for this start tag, so a selector's matches depend on which other selectors are registered", f.loc())
    # the position to resume at after an attribute bail-out inside a jump set is the inner set's own recovery point
    # (relative offset), not an absolute address
    for nm, agg in (("SelectorMatchingVm::try_exec_jumps_without_attrs", "JumpPtr"), ("SelectorMatchingVm::try_exec_hereditary_jumps_without_attrs", "HereditaryJumpPtr")):
        offs = []
        for g in mir.fns:
            if not g.key.startswith(nm):
                continue
            for b in g.blocks:
                for st in b["stmts"]:
                    if st["k"] == "assign" and st["rv"]["k"] == "agg" and (st["rv"].get("name") or "").endswith("::" + agg):
                        d = dict(zip(st["rv"]["fields"], [g.deep(o) for o in st["rv"]["ops"]]))
                        offs.append(d.get("offset"))
        key = nm.split("::")[-1] + "|resume-offset"
        r.inst(key, sample={"offset_operands": offs})
        if len(offs) != 1 or not (offs[0] or "").endswith("recovery_point"):
            r.violate(key, f"{nm.split('::')[-1]} resumes a bailed-out jump set at `{offs}` instead of the inner bail-out's recovery_point: the rest of that instruction set is skipped (or re-run), so `div > p` stops matching when `div > .x` is registered before it", None)
    ew = mir.fn("SelectorMatchingVm::exec_without_attrs")
    tries = [(bi, callee_key(t)) for bi, t in ew.calls(r"try_exec_(instr_set|jumps|hereditary_jumps)_without_attrs$")]
    tries.sort(key=lambda x: len(ew.dominators()[x[0]]))
    bails = [(bi, ew.describe_operand(t["args"][2])) for bi, t in ew.calls(r"SelectorMatchingVm::bailout$")]
    bails.sort(key=lambda x: len(ew.dominators()[x[0]]))
    r.inst("exec_without_attrs|stages", sample={"tries": [c.split("::")[-1] for _, c in tries], "recoveries": [d.split("::")[-1] for _, d in bails]})
    want_t = ["try_exec_instr_set_without_attrs", "try_exec_jumps_without_attrs", "try_exec_hereditary_jumps_without_attrs"]
    want_b = ["recover_after_bailout_in_entry_points", "recover_after_bailout_in_jumps", "recover_after_bailout_in_hereditary_jumps"]
    if [c.split("::")[-1] for _, c in tries] != want_t or [re.sub(r".*::", "", d) for _, d in bails] != want_b:
        r.violate("exec_without_attrs|stages", "exec_without_attrs no longer runs the three stages in order with the matching recovery function for each", ew.loc())
    else:
        for (tb, _), (bb, _) in zip(tries, bails):
            if not ew.dominates(tb, bb):
                r.violate("exec_without_attrs|pairing", "a bail-out is not paired with the stage that produced it", ew.loc())



def clause_stack_directive(r, idx):
    gsd = idx.one("get_stack_directive", owner="Stack")
    # complete decision table (namespace x tag) -> directive by finite-domain abstract interpretation
    from ..tagsem import Interp, tag_variants, OTHER, Sym
    import importlib.util, os
    from ..facts import VERIF
    sp_ = importlib.util.spec_from_file_location("html_tables", os.path.join(VERIF, "spec", "html_tables.py"))
    T_ = importlib.util.module_from_spec(sp_); sp_.loader.exec_module(T_)
    voids_ref = T_.VOID_ELEMENTS | T_.VOID_OBSOLETE
    itp = Interp(idx, tag_param="local_name")
    params = [p_["pat"].get("name") for p_ in gsd.node["sig"]["inputs"] if not p_.get("self")]
    for ns in ("Namespace::Html", "Namespace::Svg", "Namespace::MathML"):
        for t in [OTHER] + tag_variants(idx):
            try:
                v = itp.call_fn(gsd, [Sym("item"), ns, False][:len(params)], self_env={params[0] + ".local_name": t})
            except EngineError as e:
                raise EngineError("R04.5: " + str(e))
            got = str(v).split("::")[-1]
            name = t.lower() if t != OTHER else None
            want = ("PopImmediately" if name in voids_ref else "Push") if ns == "Namespace::Html" else "PushIfNotSelfClosing"
            key = "directive|%s|%s" % (ns.split("::")[-1], t)
            r.inst(key, nontrivial=(want != "Push"))
            if got != want:
                r.violate(key, f"get_stack_directive gives {got} for <{name or 'other'}> in the {ns.split('::')[-1]} namespace, expected {want}: " + ("an HTML void element name used in SVG/MathML is an ordinary element there (it has content unless self-closed), so can_have_content(), end-tag handlers and child matching would be wrong" if ns != "Namespace::Html" else "void elements have no content and no end tag; every other HTML element is pushed"), "src/selectors_vm/stack.rs")


def rule_absolute_indices(ctx, mir, rid="R04.7"):
    # ------------------------------------------------------------------ R04.7
    r = ctx.rule(rid, "absolute indices: wherever the selector VM derives an id / stack index from `enumerate` (match ids from bit-set words, stack positions, jump indices), the enumeration runs over the whole container — no skipping, filtering or reversing adaptor sits between the container and `enumerate`", "E-MIR", floor=4)
    SHIFTING = re.compile(r"(skip|skip_while|filter|filter_map|rev|step_by|chain|flat_map|flatten|take_while|map_while|peekable|zip)\(")
    for f in mir.fns:
        if mir.is_test_fn(f) or not f.path.startswith("selectors_vm::"):
            continue
        for bi, t in f.calls(r"Iterator::enumerate$|::enumerate$"):
            chain = f.deep(t["args"][0])
            key = f.key + "|enumerate"
            r.inst(key, sample={"fn": f.key, "over": chain[:120]})
            m = SHIFTING.search(chain)
            if m:
                r.violate(key, f"{f.key}: `enumerate` is applied after `{m.group(1)}` ({chain[:100]}): the indices are relative to the remaining items, so ids / positions computed from them are shifted (wrong handler or stack entry)", f.loc())



def rule_hash_codes(ctx, mir, idx, rid="R04.14"):
    """E-PEVAL: LocalNameHash::update evaluated over all 256 bytes from the current MIR."""
    from ..mireval import PEval
    r = ctx.rule(rid, "the element-name hash is a faithful code of ASCII names: LocalNameHash::update, evaluated for every byte value, raises no arithmetic assertion, maps a-z/A-Z to 26 distinct 5-bit codes independent of case, 1-6 to 6 further distinct codes, and every other byte to the invalid hash; each Tag constant equals the hash of its lower-cased name under that table", "E-PEVAL (MIR partial evaluation over the byte domain) + E-AST", floor=300)
    f = mir.fn("LocalNameHash::update")
    pe = PEval(f)
    H = {"local": 1, "proj": ["*", {"f": "0", "of": "html::local_name::LocalNameHash"}]}
    if f.rec["locals"][2] != "u8":
        raise EngineError(rid + ": LocalNameHash::update no longer takes a byte")
    EMPTY = (1 << 64) - 1
    code = {}
    for ch in range(256):
        key = "byte:%d" % ch
        r.inst(key, nontrivial=(ch in (0x30, 0x31, 0x36, 0x37, 0x41, 0x5a, 0x61, 0x7a)))
        for seed in ([(H, 0)], []):
            fails, paths, complete = pe.run({2: ch}, seed)
            if not complete:
                raise EngineError(rid + ": LocalNameHash::update could not be evaluated completely (loop or unknown terminator)")
            for fl in fails:
                r.violate(key + "|assert", f"LocalNameHash::update({ch!r} = {chr(ch)!r}): {fl} - a panic in builds with overflow checks, a wrapped value otherwise", f.loc())
            if seed and not fails:
                outs = set(p.env.get(pe.pkey(H)) for p in paths)
                if len(outs) != 1 or None in outs:
                    raise EngineError(rid + ": the stored hash is not a function of the byte alone (%r)" % (outs,))
                code[ch] = outs.pop()
    if len(code) == 256:
        letters = {c: code[c] for c in range(0x61, 0x7b)}
        digits = {c: code[c] for c in range(0x31, 0x37)}
        r.inst("table", sample={"letters": {chr(k): v for k, v in letters.items()}, "digits": {chr(k): v for k, v in digits.items()}})
        valid = {**letters, **digits}
        if any(v == EMPTY or v >= 32 for v in valid.values()) or len(set(valid.values())) != len(valid):
            r.violate("table|injective", f"the per-character codes are not 32 distinct 5-bit values: {dict((chr(k), v) for k, v in valid.items())}: different names would share a hash (the VM and the tree-builder tables compare hashes)", f.loc())
        for c in range(0x41, 0x5b):
            if code[c] != code[c + 32]:
                r.violate("table|case:" + chr(c), f"{chr(c)!r} and {chr(c + 32)!r} hash differently: element names would compare case-sensitively", f.loc())
        others = [c for c in range(256) if c not in valid and not (0x41 <= c <= 0x5a) and code[c] != EMPTY]
        if others:
            r.violate("table|others", f"bytes {[chr(c) for c in others[:8]]} get a code although the hash alphabet is [a-z1-6]: names containing them collide with other names", f.loc())
        # Tag constants
        def h_of(name):
            h = 0
            for ch in name.lower().encode():
                if h >> 59:
                    return EMPTY
                v = code[ch]
                if v == EMPTY:
                    return EMPTY
                h = (h << 5) | v
            return h
        e = idx.enum("Tag")
        for v in e["variants"]:
            d = re.sub(r"[_\s]|u64$", "", v.get("discriminant") or "")
            key = "Tag::" + v["name"]
            r.inst(key, nontrivial=False)
            if not d.isdigit():
                raise EngineError(rid + ": Tag::%s has no literal discriminant" % v["name"])
            if int(d) != h_of(v["name"]):
                r.violate(key, f"Tag::{v['name']} = {int(d)} but the hash of \"{v['name'].lower()}\" is {h_of(v['name'])}: the tag is never recognised (void list, text-mode switches, foreign-content tables)", "src/html/tag.rs")
        r.count("tag_constants", len(e["variants"]))
