"""C16 Element / attribute read API reflects the start tag — outline clauses."""
import re
from ..mirlib import load, callee_key
from ..smgraph import Graph, automaton
from ..sm import NONE, fmt_mask
from ..smimpl import index, impl_methods
from ..astlib import walk
from ..facts import EngineError
from . import shared, shared_mir as sm

# attribute protocol of the lexer actions (what a leaf may do in which protocol state)
NO, NAME, NAMED, VALUED = "no-attr", "in-name", "name-done", "value-done"


def run(ctx):
    mir = load()
    aut = automaton()
    g = Graph(aut)
    idx = index()

    rule_attr_typestate(ctx, idx, aut, g, mir)

    rule_attr_lookup(ctx, mir)

    # ------------------------------------------------------------------ R16.3
    r = ctx.rule("R16.3", "getters: name()/tag_name() -> ASCII-lower-cased decoding, *_preserve_case -> exact decoding, value() -> raw decoding; the namespace reported for a start tag is the one it was processed in (read before deferred tree-builder feedback can enter an integration point); void list", "E-MIR + E-AST", floor=6)
    from .c04 import clause_stack_directive
    clause_stack_directive(r, idx)
    want = {
        "StartTag::name": "as_lowercase_string", "StartTag::name_preserve_case": "as_string",
        "EndTag::name": "as_lowercase_string", "EndTag::name_preserve_case": "as_string",
        "Attribute::name": "as_lowercase_string", "Attribute::name_preserve_case": "as_string", "Attribute::value": "as_string",
        "Element::tag_name": "StartTag::name", "Element::tag_name_preserve_case": "StartTag::name_preserve_case",
        "Element::namespace_uri": "StartTag::namespace_uri", "Element::is_self_closing": "StartTag::self_closing",
    }
    for k, callee in want.items():
        fs = mir.by_key.get(k, [])
        r.inst(k, sample={"getter": k, "expected_callee": callee})
        if len(fs) != 1:
            r.violate(k, f"getter {k} not found", None)
            continue
        cs = [callee_key(t) for bi, t in fs[0].calls()]
        if not any(c.endswith(callee) for c in cs):
            r.violate(k, f"{k} calls {cs}, expected {callee}", fs[0].loc())
    clause_ns_of_tag(r, mir)
    clause_void_list(r, idx)

    # ------------------------------------------------------------------ R16.4
    r = ctx.rule("R16.4", "no byte-wise ASCII case folding of names that are encoded in the document encoding (legacy multi-byte encodings have trail bytes in A-Z/a-z)", "E-MIR lint", floor=3)
    sites = []
    for f in mir.fns:
        if mir.is_test_fn(f):
            continue
        for bi, t in f.calls(r"eq_case_insensitive$|eq_ignore_ascii_case$|make_ascii_lowercase$|u8::to_ascii_lowercase|\[u8\]::to_ascii_lowercase"):
            sites.append((f, bi, t))
    r.count("byte_folding_call_sites", len(sites))
    LOOKUP = re.compile(r"^Attributes::(map_attribute|set_attribute|remove_attribute)")
    for f, bi, t in sites:
        key = f"{f.key}|{callee_key(t)}"
        on_lookup = bool(LOOKUP.match(f.key))
        r.inst(key, sample={"site": f.key, "call": callee_key(t), "on_attribute_lookup_path": on_lookup}, nontrivial=on_lookup)
    look = sorted(set(f.key.split("::{")[0] for f, bi, t in sites if LOOKUP.match(f.key)))
    for k in look:
        r.violate(k + "|byte-fold", f"{k} compares attribute names with byte-wise ASCII folding of bytes in the document encoding: under SHIFT_JIS/Big5/GBK a trail byte in A-Z is 'lower-cased', so an attribute that is present is not found (and the debug assertion of eq_case_insensitive fires)", None)

    # ------------------------------------------------------------------ R16.5 (shared with C13 R13.4)
    # getters return the source text decoded in the document encoding: no BOM sniffing on names / values
    from .c13 import rule_no_bom_sniffing
    rule_no_bom_sniffing(ctx, mir, rid="R16.5")

    # ------------------------------------------------------------------ R16.6 (shared with C03 R03.1)
    # tag names, attributes and the self-closing flag are what the tokenizer delimits: byte classes must equal the reference
    from .c03 import rule_product
    from ..smgraph import Graph as _Graph, automaton as _automaton
    _aut = _automaton()
    rule_product(ctx, _Graph(_aut), _aut, rid="R16.6")

    # ------------------------------------------------------------------ R16.7 (shared with C03 R03.8)
    # namespace_uri() / can_have_content() follow the simulator's namespace stack: its complete decision tables
    from .c03 import rule_foreign_feedback_table, spec_tables
    rule_foreign_feedback_table(ctx, idx, spec_tables(), rid="R16.7")

    # ------------------------------------------------------------------ R16.8 (= R03.7)
    from .c03 import rule_self_closing_ns
    rule_self_closing_ns(ctx, mir, rid="R16.8")

    # ------------------------------------------------------------------ R16.9 (generic, scoped to this property's anchors)
    sm.rule_named_plumbing(ctx, mir, "C16", "R16.9", floor=70)

    # ------------------------------------------------------------------ R16.10 (= R17.12)
    from .c17 import rule_namespace_uris
    rule_namespace_uris(ctx, rid="R16.10")

    ctx.not_decided += ["exact range arithmetic of finish_attr_value (closing-quote offsets) at run time", "decoding of values (encoding_rs)"]
    return ("Typestate of the attribute-building actions over every path of the %d-state automaton, the lookup/edit discipline of Attributes, "
            "the getter-to-decoder mapping, where the reported namespace is read relative to tree-builder feedback, and a lint for byte-wise "
            "case folding of encoded names." % len(aut.states))


def clause_ns_of_tag(r, mir):
    et0 = mir.fn("Lexer::emit_tag[StateMachineActions]")
    cmps = [(st["rv"]["op"], et0.deep(st["rv"]["a"]), et0.deep(st["rv"]["b"])) for b in et0.blocks for st in b["stmts"]
            if st["k"] == "assign" and st["rv"]["k"] == "bin" and st["rv"]["op"] in ("Lt", "Le", "Gt", "Ge", "Eq", "Ne") and "ns_depth(" in et0.deep(st["rv"]["a"]) + et0.deep(st["rv"]["b"])]
    r.inst("emit_tag|ns-depth-test", sample={"comparisons": [(op, a[-40:], b[-40:]) for op, a, b in cmps]})
    if len(cmps) != 1 or cmps[0][0] not in ("Gt", "Lt") or not ("ns_depth(" in cmps[0][1] and "ns_depth(" in cmps[0][2]):
        r.violate("emit_tag|ns-depth-test", f"Lexer::emit_tag decides between the namespace before and after deferred feedback with {[(op) for op, _, _ in cmps]} on the namespace depth; only a *deeper* stack (a deferred push by an integration point) may keep the earlier namespace — a tag that pops a namespace (<font color> breaking out of SVG/MathML) must report the namespace it ends up in", et0.loc())
    et = mir.fn("Lexer::emit_tag[StateMachineActions]")
    hf = [bi for bi, t in et.calls(r"Lexer::handle_tree_builder_feedback$")]
    ns_reads = [bi for bi, t in et.calls(r"TreeBuilderSimulator::current_ns$")]
    r.inst("emit_tag|ns", sample={"current_ns_reads": len(ns_reads), "deferred_feedback_calls": len(hf)})
    if len(hf) != 1 or not ns_reads:
        r.violate("emit_tag|ns", "Lexer::emit_tag: expected one handle_tree_builder_feedback call and a read of current_ns()", et.loc())
    else:
        # a read that is not after the deferred feedback must exist (the element of an integration point belongs to the foreign namespace)
        before = [b for b in ns_reads if not et.dominates(hf[0], b) and b not in et.reachable_blocks(et.succs()[hf[0]][0])]
        tf = [bi for bi, t in et.calls(r"Lexer::try_get_tree_builder_feedback$")]
        if not before:
            r.violate("emit_tag|ns-before-deferred-feedback", "the namespace stored in the start tag is read only after deferred tree-builder feedback was applied: for an integration point (<svg><foreignObject>, <title>, <desc>; <math><mi|mo|mn|ms|mtext>, <annotation-xml encoding=text/html>) the callback has already entered the HTML namespace, so namespace_uri() reports XHTML for an SVG/MathML element", et.loc())
        elif tf and not all(et.dominates(tf[0], b) for b in before):
            r.violate("emit_tag|ns-after-immediate-feedback", "the namespace is read before the immediate tree-builder feedback (<svg> itself would report the outer namespace)", et.loc())


def rule_ns_of_tag(ctx, mir, rid):
    r = ctx.rule(rid, "the namespace reported for a start tag does not depend on who asked for tree-builder feedback (lexer or tag scanner): it is read after the immediate feedback and is not affected by deferred feedback (integration points)", "E-MIR", floor=1)
    clause_ns_of_tag(r, mir)


def clause_void_list(r, idx):
    # void list
    import importlib.util, os
    from ..facts import VERIF
    from ..tagsem import Interp, tag_variants, OTHER, EMPTY
    sp = importlib.util.spec_from_file_location("html_tables", os.path.join(VERIF, "spec", "html_tables.py"))
    T = importlib.util.module_from_spec(sp); sp.loader.exec_module(T)
    vf = [f for f in idx.fns if f.name == "is_void_element"]
    if len(vf) != 1:
        raise EngineError("anchor is_void_element")
    it = Interp(idx, tag_param=(vf[0].node["sig"]["inputs"][-1]["pat"].get("name") or "tag_name"))
    voids = set()
    tags = tag_variants(idx)
    p0 = [i for i in vf[0].node["sig"]["inputs"] if not i.get("self")]
    for t in [OTHER] + tags:
        try:
            v = it.call_fn(vf[0], [t, False][:len(p0)])
        except EngineError as e:
            raise EngineError("is_void_element: " + str(e))
        if v is True:
            voids.add(t.lower())
    r.inst("void-list", sample={"voids": sorted(voids)})
    # the tree builder inserts and immediately pops the obsolete ones too (basefont, bgsound, frame, keygen, param)
    must = T.VOID_ELEMENTS | T.VOID_OBSOLETE
    may = must
    if not must <= voids or not voids <= may:
        r.violate("void-list", f"is_void_element: missing {sorted(must - voids)}, unexpected {sorted(voids - may)} (can_have_content would disagree with the HTML void-element list)", None)



def rule_attr_lookup(ctx, mir, rid="R16.2"):
    # ------------------------------------------------------------------ R16.2
    r = ctx.rule(rid, "lookups: get/has/set/remove_attribute lower-case the queried name (ASCII) before encoding it, compare case-insensitively, return the first match; removal removes every duplicate; edits are visible to later reads", "E-MIR", floor=6)
    sm.clause_eq_case_insensitive(r, mir)
    # readers return the first duplicate, so the editor must update the first one too: forward searches only
    for nm in ("Attributes::map_attribute", "Attributes::set_attribute"):
        f = mir.fn(nm)
        fwd = [callee_key(t) for bi, t in f.calls(r"(Iter|IterMut)::(find|find_map|position)\[Iterator\]$")]
        back = [callee_key(t) for bi, t in f.calls(r"rfind|rposition|next_back|::rev(\[|$)|::last(\[|$)|rfold|rev_")]
        r.inst(nm + "|first-duplicate", sample={"forward_searches": fwd, "backward_searches": back})
        if len(fwd) != 1 or back:
            r.violate(nm + "|first-duplicate", f"{nm} locates the attribute with {fwd + back}: with duplicate names the attribute that get_attribute()/attributes() report first (and that HTML parsers use) must be the one found (exactly one forward find)", f.loc())
    for nm in ("Attributes::map_attribute", "Attributes::set_attribute", "Attributes::remove_attribute"):
        f = mir.fn(nm)
        low = [bi for bi, t in f.calls(r"to_ascii_lowercase$")]
        nfs = [bi for bi, t in f.calls(r"Attribute::name_from_string$")]
        key = nm + "|lowercase-query"
        r.inst(key)
        if len(nfs) != 1 or not low or not any(f.dominates(l, nfs[0]) for l in low):
            r.violate(key, f"{nm} does not ASCII-lower-case the queried name before encoding it (lookups would be case-sensitive)", f.loc())
        else:
            d = f.describe_operand(f.blocks[nfs[0]]["term"]["args"][0])
            if "to_ascii_lowercase" not in d:
                r.violate(key, f"{nm}: the name given to name_from_string is `{d}`, not the lower-cased query", f.loc())
    # comparison closure(s) use eq_case_insensitive(attr.name, query)
    cmp_fns = [f for f in mir.fns if f.closure_suffix and f.key.startswith("Attributes::") and list(f.calls(r"eq_case_insensitive$"))]
    r.inst("compare|closures", sample={"closures": [f.key for f in cmp_fns]})
    if len(cmp_fns) < 3:
        r.violate("compare|closures", "map_attribute / set_attribute / remove_attribute no longer all compare names with eq_case_insensitive", None)
    ma = mir.fn("Attributes::map_attribute")
    finds = [callee_key(t) for bi, t in ma.calls(r"find_map")]
    r.inst("map_attribute|first-match", sample={"calls": finds})
    if len(finds) != 2 or any("rev" in callee_key(t) or "rfind" in callee_key(t) or "last" in callee_key(t) for bi, t in ma.calls()):
        r.violate("map_attribute|first-match", f"map_attribute must return the first matching attribute on both the materialised and the lazy path (find_map x2), found {finds}", ma.loc())
    got = [bi for bi, t in ma.calls(r"OnceCell::get$|OnceCell<.*>::get$|::get$")]
    r.inst("map_attribute|reads-edits-first")
    if not got or not all(ma.dominates(got[0], b) for b, t in ma.calls(r"find_map")):
        r.violate("map_attribute|reads-edits-first", "map_attribute does not consult the materialised (possibly edited) attribute list before falling back to the parsed outlines", ma.loc())
    ra = mir.fn("Attributes::remove_attribute")
    bulk = [callee_key(t) for bi, t in ra.calls(r"retain|extract_if|dedup")]
    single = [bi for bi, t in ra.calls(r"Vec::remove$|swap_remove$")]
    in_loop = [bi for bi in single if any(bi in ra.reachable_blocks(s) for s in ra.succs()[bi])]
    r.inst("remove_attribute|all-duplicates", sample={"bulk": bulk, "single_removals": len(single), "in_loop": len(in_loop)})
    if not bulk and (not single or len(in_loop) != len(single)):
        r.violate("remove_attribute|all-duplicates", "remove_attribute removes at most one matching attribute (no bulk removal and the removal is not inside a loop): a duplicate of the name stays visible to has_attribute/get_attribute and in the output", ra.loc())



def rule_attr_typestate(ctx, idx, aut, g, mir, rid="R16.1"):
    # ------------------------------------------------------------------ R16.1
    r = ctx.rule(rid, "attribute typestate over every path of the tag states: start_attr -> finish_attr_name -> (start_token_part .. finish_attr_value)? -> finish_attr, a tag is emitted only with no attribute open, and mark_as_self_closing only on the `>` of self_closing_start_tag_state", "E-SM may-typestate", floor=30)
    lx = impl_methods(idx, "Lexer", "StateMachineActions")
    for need in ("start_attr", "finish_attr_name", "finish_attr_value", "finish_attr", "emit_tag", "mark_as_self_closing"):
        if need not in lx:
            raise EngineError("R16.1 anchor: Lexer::" + need)
    # (state, value_part_started)
    start = {(NO, False)}
    facts = {n: set() for n in g.nodes}
    for n in g.text_nodes:
        facts[n] |= start
    viol = {}

    def step(states, e):
        cur = set(states)
        for a in e.names():
            nxt = set()
            for (s, vs) in cur:
                if a == "start_attr":
                    if s != NO:
                        viol.setdefault((id(e.leaf), "start_attr"), (e, f"start_attr while an attribute is still open ({s}): the previous attribute is dropped"))
                    nxt.add((NAME, False))
                elif a == "finish_attr_name":
                    if s != NAME:
                        viol.setdefault((id(e.leaf), a), (e, f"finish_attr_name in protocol state {s}"))
                    nxt.add((NAMED, False))
                elif a == "start_token_part":
                    nxt.add((s, True) if s == NAMED else (s, vs))
                elif a == "finish_attr_value":
                    if s != NAMED or not vs:
                        viol.setdefault((id(e.leaf), a), (e, f"finish_attr_value in protocol state {s}{'' if vs else ' without start_token_part marking the value start'}"))
                    nxt.add((VALUED, False))
                elif a == "finish_attr":
                    if s not in (NAMED, VALUED):
                        viol.setdefault((id(e.leaf), a), (e, f"finish_attr in protocol state {s} (name not finished)"))
                    nxt.add((NO, False))
                elif a == "emit_tag":
                    if s != NO:
                        viol.setdefault((id(e.leaf), a), (e, f"the tag is emitted while an attribute is still open ({s}): that attribute is missing from attributes()/get_attribute()"))
                    nxt.add((NO, False))
                elif a in ("create_start_tag", "create_end_tag"):
                    nxt.add((NO, False))
                else:
                    nxt.add((s, vs))
            cur = nxt
        return cur
    changed = True
    while changed:
        changed = False
        for e in g.edges():
            if e.dst is None or not facts[e.src]:
                continue
            out = step(facts[e.src], e)
            if e.dst in g.text_nodes:
                out = {(NO, False)}
            if not out <= facts[e.dst]:
                facts[e.dst] |= out
                changed = True
    n_attr_edges = 0
    for e in g.edges():
        nm = e.names()
        if any(a in ("start_attr", "finish_attr_name", "finish_attr_value", "finish_attr", "emit_tag") for a in nm) and e.leaf is not None:
            n_attr_edges += 1
            r.inst("%s|%s|%s" % (e.state, fmt_mask(e.c0), ">".join(nm)), sample={"leaf": e.describe(), "protocol_states_before": sorted(s for s, _ in facts[e.src])})
    seen = set()
    for (lid, a), (e, msg) in viol.items():
        key = "%s|%s|%s" % (e.state, fmt_mask(e.c0), a)
        if key in seen:
            continue
        seen.add(key)
        r.violate(key, msg + ": " + e.describe(), shared.state_loc(e.state))
    # end of a tag with an open attribute at EOF is fine (raw emitted without token). Self closing:
    for e in g.edges():
        if e.leaf is not None and "mark_as_self_closing" in e.names():
            key = "%s|%s|mark_as_self_closing" % (e.state, fmt_mask(e.c0))
            r.inst(key)
            if e.state != "self_closing_start_tag_state" or e.c0 != (1 << ord(">")) or "emit_tag" not in e.names():
                r.violate(key, "mark_as_self_closing outside the `/>` ending of a tag: " + e.describe(), shared.state_loc(e.state))
    # a `/` followed by `>` always marks
    sc = [e for e in g.out["self_closing_start_tag_state"] if e.c0 == (1 << ord(">"))]
    r.inst("self_closing|gt")
    if not sc or not all("mark_as_self_closing" in e.names() for e in sc):
        r.violate("self_closing|gt", "`/>` does not mark the tag as self-closing", shared.state_loc("self_closing_start_tag_state"))
    # action semantics the typestate relies on (read from the Lexer impl): ranges are [token_part_start, pos)
    f = mir.fn("Lexer::finish_attr_value[StateMachineActions]")
    f2 = mir.fn("Lexer::finish_attr_name[StateMachineActions]")
    f3 = mir.fn("Lexer::start_token_part[StateMachineActions]")
    r.inst("impl|ranges")
    for fn_, what in ((f, "value"), (f2, "name")):
        rng = [st for b in fn_.blocks for st in b["stmts"] if st["k"] == "assign" and st["rv"]["k"] == "agg" and st["rv"]["name"].endswith("Range")]
        ok = any(fn_.describe_operand(st["rv"]["ops"][0]) == "self.token_part_start" and "self.next_pos" in fn_.describe_operand(st["rv"]["ops"][1]) and "Sub" in fn_.describe_operand(st["rv"]["ops"][1]) for st in rng)
        if not ok:
            r.violate("impl|" + what, f"Lexer::{fn_.name} no longer records the range [token_part_start, next_pos - 1) for the attribute {what}", fn_.loc())
    wr = [(bi, st) for f_, bi, st in mir.field_writes("Lexer", "token_part_start") if f_ is f3]
    if len(wr) != 1 or "pos" not in f3.describe_operand(wr[0][1]["rv"]["o"]):
        r.violate("impl|start_token_part", "Lexer::start_token_part no longer records pos()", f3.loc())

