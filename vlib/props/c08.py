"""C08 Inserted text and validated names cannot change structure — writer/reader agreement
between the serialiser's reject/escape sets and the tokenizer automaton (language inclusions)."""
import re
from ..mirlib import load, callee_key
from ..smgraph import Graph, automaton
from ..sm import NONE, fmt_mask, mask_of, vals_of, BYTES
from ..smimpl import index
from ..astlib import walk
from ..facts import EngineError
from .. import reglang as rl
from . import shared, shared_mir as sm

WS = set(b" \n\r\t\x0c")


def byte_step(g, node, byte, cq=0x22, conds=None):
    """one input byte through the automaton (following enter/reconsume edges): (actions, next node)"""
    acts = []
    for _ in range(12):
        es = g.out[node]
        if len(es) == 1 and es[0].kind == "enter":
            acts += es[0].names()
            node = es[0].dst
            continue
        cand = []
        for e in es:
            l = e.leaf
            if not (e.c0 >> byte) & 1:
                continue
            if l["la"]:
                raise EngineError("byte_step: state %s has look-ahead arms" % e.state)
            if l["last"] is True:
                continue
            if l["cq"] is not None and l["cq"] != cq:
                continue
            if conds and any(l["conds"].get(k) not in (None, v) for k, v in conds.items()):
                continue
            cand.append(e)
        dst = set((e.dst, e.kind, e.consumed, tuple(e.names())) for e in cand)
        kinds = set(k for _, k, _, _ in dst)
        if "dyn" in kinds:
            e = cand[0]
            return acts + e.names(), "<text>"
        if len(dst) != 1:
            raise EngineError("byte_step: ambiguous step in %s on byte %d: %s" % (node, byte, dst))
        e = cand[0]
        acts += e.names()
        if e.kind == "break":
            return acts, None
        if e.consumed == 0:
            node = e.dst
            continue
        return acts, e.dst
    raise EngineError("byte_step: too many non-consuming steps from " + node)


def byte_set_of_matches(fnnode):
    """byte sets of `matches!(ch, b'x' | ...)` expansions inside a function: list of sets"""
    out = []
    for n in walk(fnnode["body"]):
        if n.get("k") == "Match" and len(n["arms"]) == 2:
            a0, a1 = n["arms"]
            if a1["pat"].get("k") == "PWild" and a0["body"].get("s") == "true" and a1["body"].get("s") == "false":
                p = a0["pat"]
                cases = p["cases"] if p.get("k") == "POr" else [p]
                bs = set()
                ok = True
                for c in cases:
                    if c.get("k") == "PLit" and c["lit"]["t"] == "byte":
                        bs.add(int(c["lit"]["v"]))
                    else:
                        ok = False
                if ok:
                    out.append(bs)
    return out


def str_pred_to_dfa(e, var):
    """regular language of a bool expression over a &str variable (recognised forms only)"""
    k = e.get("k")
    if k == "Binary" and e["op"] == "||":
        return str_pred_to_dfa(e["left"], var).union(str_pred_to_dfa(e["right"], var))
    if k == "Binary" and e["op"] == "&&":
        return str_pred_to_dfa(e["left"], var).intersect(str_pred_to_dfa(e["right"], var))
    if k == "Unary" and e["op"] == "!":
        return str_pred_to_dfa(e["e"], var).complement()
    if k == "Block" and len(e["body"]) >= 1:
        # { let rest = &text[pos + m.len()..]; <pred over rest> }
        return str_pred_to_dfa(e["body"][-1]["e"], var)
    if k == "MethodCall" and e["recv"].get("k") == "Path" and e["recv"]["path"] == var:
        m = e["method"]
        if m in ("contains", "starts_with") and len(e["args"]) == 1:
            lit = _lit_bytes(e["args"][0])
            if lit is not None:
                return rl.contains(lit) if m == "contains" else rl.literal_prefix(lit)
        if m == "is_empty":
            return rl.literal_prefix(b"").minus(rl.contains(b"")) if False else _only_empty()
    if k == "MethodCall" and e["method"] == "any" and e["recv"].get("k") == "MethodCall" and e["recv"]["method"] == "match_indices":
        mi = e["recv"]
        if mi["recv"].get("k") == "Path" and mi["recv"]["path"] == var:
            lit = _lit_bytes(mi["args"][0])
            clo = e["args"][0]
            if lit is not None and clo.get("k") == "Closure" and clo["inputs"] and clo["inputs"][0].get("k") == "PTuple" and len(clo["inputs"][0]["elems"]) == 2:
                pos, mv = [x.get("name") for x in clo["inputs"][0]["elems"]]
                body = clo["body"]
                if body.get("k") == "Block" and len(body["body"]) == 2 and body["body"][0].get("k") == "Local":
                    loc = body["body"][0]
                    rest = loc["pat"].get("name")
                    init = (loc["init"].get("s") or "").replace(" ", "")
                    if init == f"&{var}[{pos}+{mv}.len()..]" and rest:
                        suffix = str_pred_to_dfa(body["body"][1]["e"], rest)
                        return rl.after_nonoverlapping_match(lit, suffix)
    raise EngineError("R08.5: unrecognised string predicate shape: " + str(e.get("s") or k)[:160])


def _only_empty():
    n = rl.NFA()
    n.accept = {n.start}
    return n.to_dfa()


def _lit_bytes(a):
    if a.get("k") == "Lit":
        t = a["lit"]["t"]
        if t == "str":
            return a["lit"]["v"].encode()
        if t == "char":
            return a["lit"]["v"].encode()
    return None


def run(ctx):
    mir = load()
    aut = automaton()
    g = Graph(aut)
    idx = index()
    alpha = set(range(65, 91)) | set(range(97, 123))

    # ------------------------------------------------------------------ R08.1
    r = ctx.rule("R08.1", "tag names: every name accepted by Element::set_tag_name keeps the tokenizer in the tag name (first byte in the alpha arm of tag_open_state, no byte on which tag_name_state leaves)", "E-AST + E-SM language inclusion", floor=3, exhaustive=True)
    f = idx.one("tag_name_bytes_from_str", owner="Element")
    # first-byte test
    first_ok = None
    for n in walk(f.node["body"]):
        if n.get("k") == "Match":
            sc = (n["scrutinee"].get("s") or "").replace(" ", "")
            if sc.startswith("name.") and "first" in sc or "next" in sc:
                for arm in n["arms"]:
                    g_ = arm.get("guard")
                    if g_ is not None and "InvalidFirstCharacter" in (arm["body"].get("s") or ""):
                        first_ok = (sc, (g_.get("s") or "").replace(" ", ""))
    r.inst("first-byte", sample={"scrutinee_and_reject_guard": first_ok})
    accepted_first = None
    if first_ok and first_ok[0] == "name.as_bytes().first()" and first_ok[1] == "!ch.is_ascii_alphabetic()":
        accepted_first = set(alpha)
    # tokenizer side: bytes on which tag_open_state creates a start tag and enters the name
    opens = set()
    for b in range(256):
        acts, nxt = byte_step(g, "tag_open_state", b)
        if "create_start_tag" in acts and nxt == "tag_name_state":
            opens.add(b)
    if accepted_first is None:
        r.violate("first-byte", f"the first-character test of tag_name_bytes_from_str ({first_ok}) is not the ASCII-alphabetic *byte* test: the tokenizer starts a tag only on {fmt_mask(mask_of(opens))}, so an accepted name could be re-parsed as text", "src/rewritable_units/element.rs")
    elif not accepted_first <= opens:
        r.violate("first-byte", f"accepted first bytes {fmt_mask(mask_of(accepted_first - opens))} do not start a tag in tag_open_state", "src/rewritable_units/element.rs")
    sets = byte_set_of_matches(f.node)
    leaving = set()
    for b in range(256):
        acts, nxt = byte_step(g, "tag_name_state", b)
        if nxt != "tag_name_state" or [a for a in acts if a != "update_tag_name_hash"]:
            leaving.add(b)
    r.inst("reject-set", sample={"rejected": sorted(sets[0]) if sets else None, "tag_name_state_leaves_on": sorted(leaving)})
    if len(sets) != 1:
        r.violate("reject-set", "tag_name_bytes_from_str: forbidden-character set not found", "src/rewritable_units/element.rs")
    elif not leaving <= sets[0]:
        r.violate("reject-set", f"tag_name_state leaves the name on {fmt_mask(mask_of(leaving - sets[0]))} but set_tag_name accepts those bytes: a renamed tag could gain attributes or end early", "src/rewritable_units/element.rs")
    r.inst("empty-rejected")
    if "TagNameError::Empty" not in (str([a["body"].get("s") for n in walk(f.node["body"]) if n.get("k") == "Match" for a in n["arms"]]).replace(" ", "")):
        r.violate("empty-rejected", "the empty tag name is no longer rejected", "src/rewritable_units/element.rs")

    # ------------------------------------------------------------------ R08.2
    r = ctx.rule("R08.2", "attribute names: every byte on which attribute_name_state leaves the name, and every byte on which before_attribute_name_state does not start an attribute, is rejected by Attribute::name_from_string", "E-AST + E-SM language inclusion", floor=2, exhaustive=True)
    sm.clause_eq_case_insensitive(r, mir)
    f = idx.one("name_from_string", owner="Attribute")
    sets = byte_set_of_matches(f.node)
    leaving = set()
    for b in range(256):
        acts, nxt = byte_step(g, "attribute_name_state", b)
        if nxt != "attribute_name_state" or acts:
            leaving.add(b)
    nostart = set()
    for b in range(256):
        acts, nxt = byte_step(g, "before_attribute_name_state", b)
        if "start_attr" not in acts:
            nostart.add(b)
    r.inst("reject-set", sample={"rejected": sorted(sets[0]) if sets else None, "name_state_leaves_on": sorted(leaving), "no_attribute_started_on": sorted(nostart)})
    if len(sets) != 1:
        r.violate("reject-set", "Attribute::name_from_string: forbidden-character set not found", "src/rewritable_units/tokens/attributes.rs")
    else:
        miss = (leaving | nostart) - sets[0]
        if miss:
            r.violate("reject-set", f"set_attribute accepts names containing {fmt_mask(mask_of(miss))} on which the tokenizer ends or never starts the attribute name: the serialised attribute would be split / add another attribute", "src/rewritable_units/tokens/attributes.rs")
    conds = [(n["cond"].get("s") or "").replace(" ", "") for n in walk(f.node["body"]) if n.get("k") == "If"]
    r.inst("empty-rejected")
    if "name.is_empty()" not in conds:
        r.violate("empty-rejected", "the empty attribute name is no longer rejected", "src/rewritable_units/tokens/attributes.rs")

    # ------------------------------------------------------------------ R08.3
    r = ctx.rule("R08.3", "attribute values: a modified attribute is always written as name=\"...\" and exactly the bytes on which the double-quoted value state ends are escaped", "E-AST + E-SM", floor=2, exhaustive=True)
    ends = set()
    for b in range(256):
        acts, nxt = byte_step(g, "attribute_value_double_quoted_state#body", b, cq=0x22)
        if nxt != "attribute_value_double_quoted_state#body" or acts:
            ends.add(b)
    f = [x for x in idx.fns if x.name == "escape_double_quotes_only"]
    if len(f) != 1:
        raise EngineError("anchor escape_double_quotes_only")
    needles = set()
    for n in walk(f[0].node["body"]):
        if n.get("k") == "Call" and n["func"].get("k") == "Path" and n["func"]["path"].split("::")[-1].startswith("memchr"):
            for a in n["args"]:
                if a.get("k") == "Lit" and a["lit"]["t"] == "byte":
                    needles.add(int(a["lit"]["v"]))
    repl = [bytes(n["lit"]["v"]) for n in walk(f[0].node["body"]) if n.get("k") == "Lit" and n["lit"]["t"] == "bytestr"]
    r.inst("escape-set", sample={"escaped": sorted(needles), "value_state_ends_on": sorted(ends), "replacement": [x.decode() for x in repl]})
    if not ends <= needles:
        r.violate("escape-set", f"attribute_value_double_quoted_state ends on {fmt_mask(mask_of(ends - needles))} which escape_double_quotes_only does not escape: a value could close its own quotes and add markup", "src/html/mod.rs")
    if repl != [b"&quot;"]:
        r.violate("escape-replacement", f"the quote is replaced by {repl} instead of &quot;", "src/html/mod.rs")
    ib = mir.fn("Attribute::into_bytes[Serialize]")
    consts = [ib.describe_operand(__import__('vlib.props.c12', fromlist=['x']).unwrap_tuple(ib, t["args"][1])) for bi, t in ib.calls(r"call_mut$")]
    esc = list(ib.calls(r"escape_double_quotes_only$"))
    r.inst("quoted-form", sample={"outputs": consts})
    if not (any('b"=\\""' in c for c in consts) and any(c.startswith('const b"\\""') for c in consts) and len(esc) == 1 and "self.value" in ib.describe_operand(esc[0][1]["args"][0])):
        r.violate("quoted-form", "a modified attribute is no longer serialised as name=\"<escaped value>\"", ib.loc())

    # ------------------------------------------------------------------ R08.4
    r = ctx.rule("R08.4", "body text: ContentType::Text content escapes every byte on which data/RCDATA text ends plus `&`, so inserted text can reach no tag state", "E-AST + E-SM reachability", floor=3, exhaustive=True)
    f = [x for x in idx.fns if x.name == "escape_body_text"]
    if len(f) != 1:
        raise EngineError("anchor escape_body_text")
    needles = set()
    for n in walk(f[0].node["body"]):
        if n.get("k") == "Call" and n["func"].get("k") == "Path" and n["func"]["path"].split("::")[-1].startswith("memchr"):
            for a in n["args"]:
                if a.get("k") == "Lit" and a["lit"]["t"] == "byte":
                    needles.add(int(a["lit"]["v"]))
    for st in ("data_state", "rcdata_state"):
        ends = set()
        for b in range(256):
            acts, nxt = byte_step(g, st, b)
            if nxt != st:
                ends.add(b)
        r.inst(st, sample={"state": st, "text_ends_on": sorted(ends), "escaped": sorted(needles)})
        if not ends <= needles:
            r.violate(st, f"{st} leaves text on {fmt_mask(mask_of(ends - needles))} which escape_body_text does not escape: inserted text could open a tag", "src/html/mod.rs")
    r.inst("ampersand")
    if ord("&") not in needles:
        r.violate("ampersand", "escape_body_text does not escape `&`: inserted text could form a character reference", "src/html/mod.rs")
    # replacements
    strs = [n["lit"]["v"] for n in walk(f[0].node["body"]) if n.get("k") == "Lit" and n["lit"]["t"] == "str"]
    r.inst("replacements", sample={"replacements": strs})
    if sorted(strs) != ["&amp;", "&gt;", "&lt;"]:
        r.violate("replacements", f"escape_body_text replaces with {strs}", "src/html/mod.rs")
    # restricted-alphabet reachability: from data_state with `<` removed no tag state is reachable
    safe = [b for b in range(256) if b not in needles]
    seen = {"data_state"}
    todo = ["data_state"]
    while todo:
        q = todo.pop()
        for b in safe:
            try:
                acts, nxt = byte_step(g, q, b)
            except EngineError:
                nxt = "<lookahead>"
            if nxt and nxt not in seen:
                seen.add(nxt)
                if nxt in g.out:
                    todo.append(nxt)
    r.inst("reachability", sample={"states_reachable_without_escaped_bytes": sorted(seen)})
    if seen != {"data_state"}:
        r.violate("reachability", f"with the escaped bytes removed the tokenizer can still leave data_state: {sorted(seen)}", None)
    ws = mir.fn("StreamingHandlerSinkInner::write_str")
    cs = sorted(callee_key(t) for bi, t in ws.calls(r"StreamingHandlerSinkInner::"))
    r.inst("write_str|routing", sample={"callees": cs})
    if cs != ["StreamingHandlerSinkInner::write_body_text", "StreamingHandlerSinkInner::write_html"]:
        r.violate("write_str|routing", f"write_str routes content to {cs}; ContentType::Text must go through write_body_text (escaping)", ws.loc())
    else:
        sw = [b for b in ws.blocks if b["term"]["k"] == "switch"]
        # Html = variant 0 -> write_html ; Text = 1 -> write_body_text
        ct = mir.adt("ContentType")
        order = [v["name"] for v in ct["variants"]]
        ok = False
        for bi, b in enumerate(ws.blocks):
            t = b["term"]
            if t["k"] == "switch" and "discr(" in ws.describe_operand(t["d"]):
                tg = dict((v, x) for v, x in t["ts"])
                text_t = tg.get(order.index("Text"), t["else"])
                html_t = tg.get(order.index("Html"), t["else"])
                wb = [x for x, tt in ws.calls(r"write_body_text$")][0]
                wh = [x for x, tt in ws.calls(r"write_html$")][0]
                ok = (text_t == wb or ws.dominates(text_t, wb)) and (html_t == wh or ws.dominates(html_t, wh)) and text_t != html_t
        if not ok:
            r.violate("write_str|text-escapes", "ContentType::Text is not routed to write_body_text", ws.loc())
    wb = mir.fn("StreamingHandlerSinkInner::write_body_text")
    r.inst("write_body_text|escapes")
    if len(list(wb.calls(r"escape_body_text$"))) != 2 or list(wb.calls(r"call_mut$")):
        r.violate("write_body_text|escapes", "write_body_text must pass the text through escape_body_text on both the UTF-8 and the transcoding branch and emit nothing itself", wb.loc())

    # ------------------------------------------------------------------ R08.5
    r = ctx.rule("R08.5", "comment text: the language of texts that make the comment sub-automaton end the comment before the serialiser's closing `-->` (or not exactly at it) is included in the language rejected by Comment::set_text (regular-language inclusion, decided on the product DFA)", "E-SM + E-AST DFA inclusion", floor=2, exhaustive=True)
    # reader: DFA of the comment sub-automaton from comment_start_state over bytes
    states = {}
    order = []
    EMIT = "<EMIT>"
    def sid(x):
        if x not in states:
            states[x] = len(order)
            order.append(x)
        return states[x]
    trans = {}
    todo = ["comment_start_state"]
    sid("comment_start_state")
    sid(EMIT)
    while todo:
        q = todo.pop()
        if q in trans:
            continue
        row = []
        for b in range(256):
            acts, nxt = byte_step(g, q, b)
            if "emit_current_token" in acts or nxt not in g.out or not (nxt.startswith("comment") or nxt.startswith("bogus_comment")):
                nxt = EMIT
            if nxt != EMIT and nxt not in states:
                sid(nxt)
                todo.append(nxt)
            row.append(nxt)
        trans[q] = row
    trans[EMIT] = [EMIT] * 256
    r.count("comment_states", len(order) - 1)
    def run_from(q, bs):
        for b in bs:
            q = trans[q][b]
        return q
    good_end = set()
    for q in order:
        if q == EMIT:
            continue
        q1 = trans[q][ord("-")]
        q2 = trans[q1][ord("-")] if q1 != EMIT else EMIT
        q3 = trans[q2][ord(">")] if q2 != EMIT else None
        if q1 != EMIT and q2 != EMIT and q3 == EMIT:
            # and the emission on that `>` is the comment token
            good_end.add(q)
    dtrans = [[states[trans[q][b]] for b in range(256)] for q in order]
    bad = rl.DFA(dtrans, states["comment_start_state"], set(states[q] for q in order if q == EMIT or q not in good_end))
    f = [x for x in idx.fns if x.name == "contains_comment_closing_sequence"]
    if len(f) != 1:
        raise EngineError("anchor contains_comment_closing_sequence")
    body = [s_ for s_ in f[0].node["body"] if not (s_.get("k") == "ExprStmt" and s_["e"].get("k") == "Other")]
    if len(body) != 1 or body[0].get("k") != "ExprStmt":
        raise EngineError("R08.5: contains_comment_closing_sequence is not a single expression")
    var = [i["pat"]["name"] for i in f[0].node["sig"]["inputs"] if not i.get("self")][0]
    rej = str_pred_to_dfa(body[0]["e"], var)
    r.count("reject_dfa_states", rej.n())
    diff = bad.minus(rej)
    w = diff.shortest()
    r.inst("BAD-subset-of-REJ", sample={"comment_dfa_states": len(order), "reject_dfa_states": rej.n(), "counterexample": w.decode("latin-1") if w is not None else None})
    if w is not None:
        r.violate("BAD-subset-of-REJ", f"Comment::set_text accepts the text {w!r}, but `<!--{w.decode('latin-1')}-->` is tokenized with the comment ending early (or not at the final `-->`): what follows becomes live markup", "src/rewritable_units/tokens/comment.rs")
    # positive control: without the reject language the inclusion must fail
    r.control(bad.minus(rl.empty()).shortest() is not None, "BAD is non-empty, so an empty reject language must produce a counterexample")
    # sanity of the reader model: a plain text is fine, `-->` inside is bad
    r.inst("model-sanity")
    if bad.accepts(b"hello") or not bad.accepts(b"a-->b") or not bad.accepts(b">x") or not bad.accepts(b"a--!>b") or bad.accepts(b"a--b") or bad.accepts(b"a->b"):
        raise EngineError("R08.5: the comment reader model is inconsistent with known facts")
    st = idx.one("set_text", owner="Comment")
    r.inst("set_text|guarded")
    conds = [(n["cond"].get("s") or "").replace(" ", "") for n in walk(st.node["body"]) if n.get("k") == "If"]
    if "contains_comment_closing_sequence(text)" not in conds:
        r.violate("set_text|guarded", "Comment::set_text no longer rejects texts for which contains_comment_closing_sequence(text) holds", "src/rewritable_units/tokens/comment.rs")

    # ------------------------------------------------------------------ R08.6
    r = ctx.rule("R08.6", "unmappable characters and atomicity: validated setters encode with *_without_replacements, and every field write is dominated by the Ok edge of validation (a rejected call leaves the token unchanged); inserted content is only ever encoded in an ASCII-compatible encoding (constructor discipline of AsciiCompatibleEncoding, shared with C13 R13.1)", "E-MIR dominance", floor=3)
    from .c13 import clause_ascii_compatible_ctor
    clause_ascii_compatible_ctor(r, mir)
    sm.clause_rewrite_str_plumbing(r, mir)
    for nm, enc_in, writes in (("Comment::set_text", "Comment::set_text", [("Comment", "text")]),
                              ("Element::set_tag_name", "Element::tag_name_bytes_from_str", [("Element", "modified_end_tag_name")]),
                              ("Attributes::set_attribute", "Attribute::name_from_string", [])):
        f = mir.fn(nm)
        e = mir.fn(enc_in)
        wo = [callee_key(t) for bi, t in e.calls(r"owned_from_str")]
        key = nm
        r.inst(key, sample={"setter": nm, "encoder_calls": wo})
        if not wo or not all(c.endswith("owned_from_str_without_replacements") for c in wo):
            r.violate(key + "|no-replacements", f"{enc_in} encodes the name/text with {wo}: an unmappable character would be written as a numeric character reference inside a name/comment", e.loc())
        errs = set(f.err_return_blocks())
        for owner, fld in writes:
            for f2, bi, st_ in mir.field_writes(owner, fld):
                if f2 is f:
                    # the write must not be able to reach an Err return
                    if any(eb in f.reachable_blocks(bi) for eb in errs):
                        r.violate(key + "|atomic:" + fld, f"{nm} writes {owner}.{fld} and can still return an error afterwards: a rejected call would leave the token changed", f.loc())
        if nm == "Element::set_tag_name":
            val = [bi for bi, t in f.calls(r"tag_name_bytes_from_str$")]
            setn = [bi for bi, t in f.calls(r"StartTag::set_name_raw$")]
            if len(val) != 1 or len(setn) != 1 or not f.dominates(val[0], setn[0]) or any(eb in f.reachable_blocks(setn[0]) for eb in errs):
                r.violate(key + "|validate-first", "set_tag_name renames the tag before (or regardless of) validation", f.loc())
        if nm == "Attributes::set_attribute":
            val = [bi for bi, t in f.calls(r"Attribute::name_from_string$")]
            mut_ = [bi for bi, t in f.calls(r"Attributes::as_mut_vec$")]
            if len(val) != 1 or not mut_ or not all(f.dominates(val[0], m_) for m_ in mut_):
                r.violate(key + "|validate-first", "set_attribute touches the attribute list before the name was validated", f.loc())

    clause_raw_invalidated_after_success(r, mir)

    # ------------------------------------------------------------------ R08.7 (shared with C16 R16.2)
    # a validated value must end up in the attribute that a re-parse reports: set_attribute replaces whatever the spelling
    from .c16 import rule_attr_lookup
    rule_attr_lookup(ctx, mir, rid="R08.7")

    # ------------------------------------------------------------------ R08.8 (shared with C11 R11.1)
    # bail-out content is inserted text too: it must come before the raw remainder (which may end inside a tag or comment)
    from .c11 import rule_bail_out_sites
    rule_bail_out_sites(ctx, mir, rid="R08.8")

    # ------------------------------------------------------------------ R08.9 (shared with C07 R07.4)
    # inserted content must not be overwritten afterwards: the element's own end-tag edits are applied before user handlers
    from .c07 import rule_edits_not_lost
    rule_edits_not_lost(ctx, mir, rid="R08.9")

    # ------------------------------------------------------------------ R08.10 (= R07.2)
    from .c07 import rule_element_ops
    rule_element_ops(ctx, idx, rid="R08.10")

    # ------------------------------------------------------------------ R08.11 (= R13.7)
    # content is encoded for the document encoding; which <meta> decides it must not depend on handlers or on valueless metas
    from .c13 import rule_meta_charset
    rule_meta_charset(ctx, mir, rid="R08.11")

    # ------------------------------------------------------------------ R08.12 (generic, scoped to this property's anchors)
    sm.rule_named_plumbing(ctx, mir, "C08", "R08.12", floor=46)

    ctx.not_decided += ["differences between lol-html's tokenizer and other HTML parsers beyond C03", "decoding of the output under another encoding than the document's (cross-encoding confusion)"]
    return ("Writer/reader agreement decided as language inclusions between the serialiser's reject/escape sets (read from the expanded source) and the "
            "tokenizer automaton extracted from the same tree: exhaustive over all 256 bytes for names, values and body text, and a DFA inclusion "
            "(product construction, %d-state comment reader) for comment text." % (len(order)))


def clause_raw_invalidated_after_success(r, mir):
    # raw bytes are invalidated only after the (fallible) edit succeeded: no set_modified() from which an Err return is reachable
    for nm in ("StartTag::set_attribute", "StartTag::set_name", "EndTag::set_name", "Comment::set_text", "Element::set_tag_name", "StartTag::set_name_raw"):
        fs_ = mir.by_key.get(nm, [])
        for f in fs_:
            if mir.is_test_fn(f):
                continue
            errs = set(f.err_return_blocks())
            sm_ = [bi for bi, t in f.calls(r"Spanned::set_modified$")]
            if not sm_ and not errs:
                continue
            key = nm + "|raw-invalidated-after-success"
            r.inst(key, sample={"set_modified_calls": len(sm_), "err_returns": len(errs)})
            if any(eb in f.reachable_blocks(b_) for b_ in sm_ for eb in errs):
                r.violate(key, f"{nm} calls raw.set_modified() on a path that can still return an error: a rejected name/value leaves the token's attributes untouched but its original bytes are dropped, so the tag is re-serialised (quotes, spacing, line breaks normalised) although the call failed", f.loc())
