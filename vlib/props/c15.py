"""C15 Robustness — structural part only: progress of the state machine, action preconditions
(typestate), accounting of panic-capable constructs.  Does NOT prove absence of panics."""
import json
import os
import re
from ..mirlib import load, callee_key, guarded_by_related_test
from ..smgraph import Graph, automaton, transfer
from ..sm import NONE, fmt_mask, vals_of
from ..smimpl import index, impl_methods, field_effects
from ..astlib import walk
from ..facts import EngineError, VERIF, expanded_ast
from . import shared, shared_mir as sm

PANIC_TABLE = os.path.join(VERIF, "spec", "panic_sites.json")
PANICKY = re.compile(r"(^|::)(unwrap|expect|unwrap_err|expect_err)$|panicking::|::index\[|index::index|index::index_mut|slice_index|::copy_within$|\[T\]::split_at$|\[T\]::split_at_mut$|Bytes::split_at$|Vec::insert$|Vec::remove$|Vec::swap_remove$|Vec::drain$|::copy_from_slice$|str::split_at$|unreachable")


def panic_sites(mir, where=None):
    """{(fn key, kind): count} over non-test, non-cleanup code; `where` collects (Fn, block)"""
    out = {}
    for f in mir.fns:
        if mir.is_test_fn(f):
            continue
        for b in f.blocks:
            if b["cleanup"]:
                continue
            t = b["term"]
            kind = None
            if t["k"] == "assert":
                k = t["kind"]
                if k.startswith("other:"):
                    continue  # debug-build pointer checks
                kind = "assert:" + k
            elif t["k"] == "call":
                ck = callee_key(t)
                if PANICKY.search(ck):
                    kind = "call:" + ck
            if kind:
                out[(f.key, kind)] = out.get((f.key, kind), 0) + 1
                if where is not None:
                    where.setdefault((f.key, kind), []).append((f, f.blocks.index(b)))
    return out


def must_analysis(g, gen, kill, entries):
    """greatest fix-point of 'fact definitely true on entry to node'; entries start false."""
    fact = {n: True for n in g.nodes}
    for e in entries:
        fact[e] = False
    changed = True
    while changed:
        changed = False
        for e in g.edges():
            if e.dst is None:
                continue
            v = transfer(fact[e.src], e.names(), gen, kill)
            if e.dst in entries:
                continue
            if not v and fact[e.dst]:
                fact[e.dst] = False
                changed = True
    return fact


def run(ctx):
    mir = load()
    aut = automaton()
    g = Graph(aut)
    idx = index()

    # ------------------------------------------------------------------ R15.1
    r = ctx.rule("R15.1", "state-machine progress: for every input symbol the edges that consume nothing form no cycle; the `--> #[inline]` call graph is acyclic; at end of input a state breaks or reconsumes", "E-SM", floor=257)
    for sym in range(257):
        bit = 1 << sym
        def zero(e, bit=bit, sym=sym):
            if not (e.c0 & bit):
                return False
            return e.consumed == 0 or sym == NONE
        cyc = g.find_cycle(zero)
        r.inst("sym:%d" % sym, nontrivial=True)
        if cyc:
            bad = cyc[-1]
            r.violate("%s|zero-progress" % bad.state, "the state machine can loop without consuming input on symbol %s: %s" % (fmt_mask(bit), " ; ".join(x.describe() for x in cyc[:4])), shared.state_loc(bad.state))
            break
    cyc = g.find_cycle(lambda e: e.inline and e.kind in ("goto", "enter") and e.leaf is not None)
    r.inst("inline-acyclic")
    if cyc:
        r.violate("inline-cycle|" + cyc[-1].state, "`--> #[inline]` transitions form a cycle (unbounded recursion / infinite inlining): " + " ; ".join(x.describe() for x in cyc[:4]), shared.state_loc(cyc[-1].state))
    n_none = 0
    for e in g.edges():
        if e.leaf is not None and e.c0 == (1 << NONE):
            n_none += 1
            if not (e.kind == "break" or (e.kind == "goto" and e.consumed == 0)):
                r.violate("%s|eof-advance" % e.state, "at end of input a state neither breaks nor reconsumes (the cursor would run past the buffer): " + e.describe(), shared.state_loc(e.state))
    r.count("end_of_input_leaves", n_none)
    # stay-edges consume exactly one byte
    for e in g.edges():
        if e.kind == "stay" and e.consumed != 1:
            r.violate("%s|stay-consumes" % e.state, "a state loops on itself consuming %d bytes: %s" % (e.consumed, e.describe()), shared.state_loc(e.state))

    rule_action_preconditions(ctx, idx, g, aut)

    # ------------------------------------------------------------------ R15.2
    r = ctx.rule("R15.2", "panic-site inventory: every panic-capable construct (bounds/overflow/division asserts, unwrap/expect, indexing, split_at, copy_within, drain, insert, explicit panics/asserts) in non-test code is in the reviewed table; guard witnesses of the reviewed high-risk sites still hold", "E-MIR", floor=100)
    where = {}
    sites = panic_sites(mir, where)
    if not os.path.exists(PANIC_TABLE):
        raise EngineError("spec/panic_sites.json missing (run tools/update_panic_table.py and review)")
    table = json.load(open(PANIC_TABLE))
    allowed = {(e["fn"], e["kind"]): e for e in table["sites"]}
    r.count("panic_capable_sites", sum(sites.values()))
    r.count("functions_with_sites", len(set(k[0] for k in sites)))
    present_fns = set(f.key for f in mir.fns)
    gone = {}
    for (fn_, kind_), e in allowed.items():
        if fn_ not in present_fns:
            gone.setdefault(kind_, []).append(e)          # reviewed sites whose function was renamed / moved
    auto = []

    def unreviewed_discharged(fn, kind, extra):
        """an unreviewed site is accepted without review when (a) a dominating test relates to its
        operands, or its operand is clamped; or (b) it is a reviewed site whose function was renamed.
        `extra` = number of sites that need a reason."""
        if re.search(r"overflow:(Rem|Div|Neg)", kind):
            return False          # MIN / -1, MIN % -1, -MIN: a test of the divisor against zero does not exclude them
        ok_sites = [(f_, bi_) + guarded_by_related_test(f_, bi_) for f_, bi_ in where[(fn, kind)]]
        good = [x for x in ok_sites if x[2]]
        if len(good) >= extra:
            auto.append({"fn": fn, "kind": kind, "how": [x[3] for x in good][:3]})
            return True
        for e in gone.get(kind, []):
            if not e.get("finding") and e["count"] >= extra - len(good):
                auto.append({"fn": fn, "kind": kind, "how": "same construct as the reviewed entry of the vanished function " + e["fn"]})
                return True
        return False
    for (fn, kind), n in sorted(sites.items()):
        key = f"{fn}|{kind}"
        ent = allowed.get((fn, kind))
        r.inst(key, sample={"fn": fn, "kind": kind, "count": n, "reviewed": ent["why"] if ent else None})
        if ent is None:
            if not unreviewed_discharged(fn, kind, n):
                bad = [bi_ for f_, bi_ in where[(fn, kind)] if not guarded_by_related_test(f_, bi_)[0]]
                f0 = where[(fn, kind)][0][0]
                why = guarded_by_related_test(f0, bad[0])[1] if bad else "a test of the divisor against zero does not exclude MIN / -1, MIN % -1"
                r.violate(key, f"unreviewed panic-capable construct: {fn} contains {n} x {kind}, not in the reviewed table spec/panic_sites.json and not excluded by a dominating test of its operands ({why}): a panic reachable from user input breaks the property", f0.loc())
        elif ent.get("finding"):
            r.violate(key, f"{fn}: {kind} is reachable with user-controlled data ({ent['why']})", None)
        elif n > ent["count"]:
            if not unreviewed_discharged(fn, kind, n - ent["count"]):
                r.violate(key, f"{fn}: {kind} occurs {n} times, the reviewed table allows {ent['count']} and the additional site is not dominated by a test of its operands (a new panic-capable site in a reviewed function)", where[(fn, kind)][0][0].loc())
    r.analysed["auto_discharged_unreviewed_sites"] = auto
    # guard witnesses
    def witness(key, ok, msg, loc=None):
        r.inst("witness:" + key)
        if not ok:
            r.violate("witness:" + key, msg, loc)
    f = mir.fn("Bytes::slice")
    mins = [callee_key(t) for bi, t in f.calls(r"min")]
    idxs = [bi for bi, t in f.calls(r"index")]
    witness("Bytes::slice", len(mins) >= 2 and all(any(f.dominates(mb, i) for mb, _ in f.calls(r"min")) for i in idxs), "Bytes::slice no longer clamps both ends of the range with min(len) before indexing: a stale range would panic", f.loc())
    f = mir.fn("TreeBuilderSimulator::check_integration_point_exit")
    bounds = [bi for bi, b in enumerate(f.blocks) if b["term"]["k"] == "assert" and b["term"]["kind"] in ("bounds", "overflow:Sub")] + [bi for bi, t in f.calls(r"index")]
    lt = [bi for bi, b in enumerate(f.blocks) for st in b["stmts"] if st["k"] == "assign" and st["rv"]["k"] == "bin" and st["rv"]["op"] == "Lt" and f.describe_operand(st["rv"]["b"]).startswith("const 2")]
    ok = bool(bounds) and bool(lt)
    if ok:
        sw = f.blocks[lt[0]]["term"]
        ok = sw["k"] == "switch" and all(f.dominates([x[1] for x in sw["ts"] if x[0] == 0][0], b) for b in bounds)
    witness("check_integration_point_exit", ok, "ns_stack[len - 2] is no longer dominated by the `len < 2` early return", f.loc())
    f = mir.fn("Arena::shift")
    callers = sorted(set(c.key for c, bi, t in mir.callers_of(r"Arena::shift$") if not mir.is_test_fn(c)))
    witness("Arena::shift|callers", callers == ["TransformStream::write"], f"Arena::shift (copy_within / len - n) is called from {callers}; its argument must be the parser's consumed count <= len", f.loc())
    f = mir.fn("DenseHashSet::insert")
    rz = [t for bi, t in f.calls(r"DenseHashSet::resize$")]
    from ..mirlib import atoms_of_operand as _atoms
    witness("DenseHashSet::insert|grows-to-index", len(rz) == 1 and "arg2" in _atoms(f, rz[0]["args"][1]),
            "DenseHashSet::insert grows the bit set by an amount that does not depend on the inserted id: the word for a high match id (>= 64 with 65+ selectors) may still be missing after the resize, and the `debug_assert!(false)` fallback fires (debug) or the match is silently dropped (release)", f.loc())
    heaps = [(g, g.deep(st["rv"]["ops"][0])) for g in mir.fns if not mir.is_test_fn(g) for b in g.blocks for st in b["stmts"]
             if st["k"] == "assign" and st["rv"]["k"] == "agg" and (st["rv"].get("name") or "").endswith("Buffer::Heap")]
    witness("TextEncoder|heap-buffer-has-length", len(heaps) >= 2 and all(d.startswith("vec::from_elem(") for _, d in heaps),
            f"the encoder's heap scratch buffer is built from {[d[:60] for _, d in heaps]} instead of `vec![0; N]`: a buffer with capacity but zero length makes encode_from_utf8 report OutputFull without progress, and TextEncoder::encode retries for ever (a hang on long non-ASCII insertions in legacy encodings)", heaps[0][0].loc() if heaps else None)
    hp = mir.fn("HandlerVec::push")
    mw = re.search(r"NonZero<u(\d+)>", hp.rec["locals"][0])
    witness("HandlerVec::push|locator-width", bool(mw) and int(mw.group(1)) >= 32,
            f"handler locators are {hp.rec['locals'][0]}: the end-tag handler vector gets one entry per open element with end-tag work, so with a locator narrower than 32 bits the 65 536th entry makes push() return None — a debug-assertion panic on 10^5-deep nesting (the handler is silently dropped in release)", hp.loc())
    # ActionError::Internal is turned into an Err, not a panic
    p = mir.fn("Parser::parse")
    aggs = [st["rv"]["name"] for b in p.blocks for st in b["stmts"] if st["k"] == "assign" and st["rv"]["k"] == "agg"]
    witness("Parser::parse|internal-to-err", any(a.endswith("RewritingError::ContentHandlerError") for a in aggs), "Parser::parse no longer converts ActionError::Internal into an Err", p.loc())

    # ------------------------------------------------------------------ R15.3
    r = ctx.rule("R15.3", "#![forbid(unsafe_code)] is in force; recursion in the crate is limited to the two reviewed, input-bounded cycles", "E-AST+E-MIR", floor=2)
    ast = expanded_ast()
    has_forbid = any(a.replace(" ", "") == "forbid(unsafe_code)" for a in ast.get("attrs", []))
    r.inst("forbid-unsafe", sample={"crate_attrs": [a for a in ast.get("attrs", []) if "unsafe" in a]})
    if not has_forbid:
        r.violate("forbid-unsafe", "the crate no longer forbids unsafe code", "src/lib.rs")
    # call graph cycles among local fns
    bypath = {f.path: f for f in mir.fns if not mir.is_test_fn(f)}
    bykey = {f.path: [f] for f in bypath.values()}
    succ = {}
    for f in bypath.values():
        for bi, t in f.calls():
            if t["callee"] in bypath:
                succ.setdefault(f.path, set()).add(t["callee"])
        for b_ in f.blocks:
            for st in b_["stmts"]:
                if st["k"] == "assign" and st["rv"]["k"] == "agg" and st["rv"]["what"] == "closure" and st["rv"]["name"] in bypath:
                    succ.setdefault(f.path, set()).add(st["rv"]["name"])
    # Tarjan SCC
    import sys
    sys.setrecursionlimit(100000)
    index_ = {}
    low = {}
    stack = []
    onst = set()
    sccs = []
    cnt = [0]
    def sc(v):
        index_[v] = low[v] = cnt[0]; cnt[0] += 1
        stack.append(v); onst.add(v)
        for w in succ.get(v, ()):
            if w not in index_:
                sc(w); low[v] = min(low[v], low[w])
            elif w in onst:
                low[v] = min(low[v], index_[w])
        if low[v] == index_[v]:
            comp = []
            while True:
                w = stack.pop(); onst.discard(w); comp.append(w)
                if w == v:
                    break
            if len(comp) > 1 or v in succ.get(v, ()):
                sccs.append(sorted(comp))
    for v in list(bykey):
        if v not in index_:
            sc(v)
    REVIEWED = {
        "Lexer::handle_tree_builder_feedback": "recursion only for RequestLexeme, whose callbacks return non-request feedback (depth <= 2)",
        "Predicate::add_selector_components": "bounded by the nesting depth of :not() in the selector text (selector parsing, not document input)",
        "Expr::compile_expr": "bounded by the selector AST depth",
        "Compiler::compile_nodes": "bounded by the depth of the selector AST (selector text, not document input)",
        "SelectorsParser::validate_component": "bounded by the nesting of :not()/:is() in the selector text",
    }
    r.analysed["recursive_components"] = sccs
    for comp in sccs:
        key = "cycle:" + ",".join(comp)
        r.inst(key, sample={"cycle": comp})
        keys = [bypath[c].key for c in comp]
        if not any(any(c.startswith(k) for k in REVIEWED) for c in keys):
            r.violate(key, f"unreviewed recursion in the crate (stack exhaustion risk on deep input): {comp}", None)

    # ------------------------------------------------------------------ R15.5 (shared with C03 R03.3)
    # the guard's template depth is decremented with plain `-`: the complete (state x tag) table also shows that a depth
    # of 0 is never stored (InTemplateInSelect(0) followed by </template> underflows in a build with overflow checks)
    from .c03 import rule_ambiguity_guard, spec_tables
    rule_ambiguity_guard(ctx, idx, mir, spec_tables(), rid="R15.5")

    # ------------------------------------------------------------------ R15.8
    r = ctx.rule("R15.8", "work per end tag does not grow with the nesting depth: the two functions that run for every end tag and own a depth-sized vector (HandlerVec::do_for_each_active_and_remove_tail over the end-tag handlers, Stack::pop_up_to over the open-element stack) search it from the back — a forward position/find/any over `self.items` walks over the entries of all enclosing elements (quadratic time on deeply nested input)", "E-MIR call shape", floor=2)
    for nm in ("HandlerVec::do_for_each_active_and_remove_tail", "Stack::pop_up_to"):
        f = mir.fn(nm)
        scans = []
        for g in [f] + [h for h in mir.fns if h.key.startswith(nm + "::{closure")]:
            for bi, t in g.calls(r"Iterator::(position|find|find_map|any|all|max_by_key|min_by_key)$|::(position|find|contains)$"):
                recv = g.deep(t["args"][0]) if t["args"] else ""
                if "items" in recv and "rev(" not in recv.lower():
                    scans.append((callee_key(t), recv[:70]))
        back = [callee_key(t) for bi, t in f.calls(r"rposition$|rfind$|::rev$|::last$|last_mut$")]
        r.inst(nm + "|search-from-the-back", sample={"forward_scans": scans, "backward_searches": back})
        if scans or not back:
            r.violate(nm + "|search-from-the-back", f"{nm} scans its depth-sized vector from the front ({scans}; backward searches: {back}): every end tag then costs time proportional to the number of open elements, i.e. closing n nested elements takes O(n^2) — a hang on 10^5-deep nesting", f.loc())

    # ------------------------------------------------------------------ R15.7 (shared with C14 R14.4 / C02 R02.2)
    # a range that is not re-based points past the new buffer: slicing clamps, but `end - start` style arithmetic and
    # debug assertions on ranges do not
    from .c14 import rule_align_complete
    rule_align_complete(ctx, mir, rid="R15.7")

    # ------------------------------------------------------------------ R15.6 (shared with C13 R13.1)
    r = ctx.rule("R15.6", "a non-ASCII-compatible encoding can never be installed (it trips debug assertions in the decoder / encoder): constructor discipline of AsciiCompatibleEncoding", "E-MIR", floor=2)
    from .c13 import clause_ascii_compatible_ctor
    clause_ascii_compatible_ctor(r, mir)

    # ------------------------------------------------------------------ R15.9 (shared with C09 R09.4)
    # break_on_end_of_input computes pos() - consumed: the consumed count must never exceed the earliest mark
    from .c09 import rule_consumed_count
    rule_consumed_count(ctx, idx, rid="R15.9")

    # ------------------------------------------------------------------ R15.10 (generic, scoped to this property's anchors)
    sm.rule_named_plumbing(ctx, mir, "C15", "R15.10", floor=361)

    # ------------------------------------------------------------------ R15.11 (= R04.14; the arithmetic-assertion part is the C15 clause)
    from .c04 import rule_hash_codes
    rule_hash_codes(ctx, mir, idx, rid="R15.11")

    # ------------------------------------------------------------------ R15.12
    rule_assert_preconditions_and_bounded_work(ctx, mir)

    # ------------------------------------------------------------------ R15.13 (= R03.1)
    # a token part that is never started/finished is an internal error (ActionError::internal) at run time
    from .c03 import rule_product
    _aut15 = automaton()
    rule_product(ctx, Graph(_aut15), _aut15, rid="R15.13")

    ctx.not_decided += ["absence of panics / overflow for all inputs (only the accounting and guards of panic-capable constructs are decided)", "stack exhaustion inside the selectors / cssparser crates", "running-time bounds beyond progress of the state machine"]
    ctx.assumptions += ["reviewed entries of spec/panic_sites.json are guarded as stated there", "recursion detection follows resolved calls and closure creation; calls through generic trait bounds (type-structural recursion such as Option<T>::align) are not followed"]
    return ("Structural part only: progress of the tokenizer automaton for each of the 257 input symbols, must-typestate of the actions' "
            "preconditions over all automaton paths, an inventory of %d panic-capable MIR sites in %d functions against a reviewed table "
            "with re-checked guard witnesses, and the crate's recursion cycles. It does not prove absence of panics." % (sum(sites.values()), len(set(k[0] for k in sites))))


def rule_action_preconditions(ctx, idx, g, aut, rid="R15.4"):
    # ------------------------------------------------------------------ R15.4
    r = ctx.rule(rid, "action preconditions hold on every path (they raise ActionError::internal / debug_assert otherwise): the tag scanner's finish_tag_name only with the tag start marked; the lexer's finish_tag_name / update_tag_name_hash / emit_tag only with a tag token created; is_appropriate_end_tag only with an end tag token", "E-SM must-analysis + E-AST", floor=20)
    entries = set(g.text_nodes)
    ts_ms = impl_methods(idx, "TagScanner", "StateMachineActions")
    gen_ts = set(n for n, f in ts_ms.items() for fld, e, _ in field_effects(f) if fld == "tag_start" and e == "some")
    kill_ts = set(n for n, f in ts_ms.items() for fld, e, _ in field_effects(f) if fld == "tag_start" and e in ("none", "take"))
    need_ts = set(n for n, f in ts_ms.items() if any(m.get("k") == "MethodCall" and m["method"] in ("ok_or_else", "ok_or", "expect", "unwrap") and "tag_start" in (m["recv"].get("s") or "") for m in walk(f.node["body"])))
    lx_ms = impl_methods(idx, "Lexer", "StateMachineActions")
    def lex_eff(field):
        gen, kill = set(), set()
        for n, f in lx_ms.items():
            for fld, e, _ in field_effects(f):
                if fld == field:
                    (gen if e == "some" else kill if e in ("none", "take") else gen).add(n)
        return gen, kill
    gen_tok, kill_tok = lex_eff("current_tag_token")
    # actions of the lexer that complain when no tag token exists
    need_tok = set()
    for n, f in lx_ms.items():
        src = json.dumps(f.node["body"])
        if "current_tag_token" in src and ("should exist at this point" in src):
            need_tok.add(n)
    cond_ms = impl_methods(idx, "Lexer", "StateMachineConditions")
    r.analysed.update({"tag_start_gen": sorted(gen_ts), "tag_start_kill": sorted(kill_ts), "requires_tag_start": sorted(need_ts),
                       "tag_token_gen": sorted(gen_tok), "tag_token_kill": sorted(kill_tok), "requires_tag_token": sorted(need_tok)})
    if not need_ts or not need_tok or not gen_tok:
        raise EngineError("R15.4: precondition-bearing actions not found (anchor moved)")
    for what, gen, kill, need in (("tag_start", gen_ts, kill_ts, need_ts), ("tag token", gen_tok, kill_tok, need_tok)):
        fact = must_analysis(g, gen, kill, entries)
        for e in g.edges():
            nm = e.names()
            v = fact[e.src]
            for i, a in enumerate(nm):
                if a in need:
                    key = "%s|%s|%s|%s" % (what, e.state, fmt_mask(e.c0), a)
                    r.inst(key, sample={"needs": what, "action": a, "leaf": e.describe()})
                    if not v:
                        r.violate(key, f"{a} can run without {what} having been set on some path: internal error 'should be set/exist at this point' (a debug-assertion panic, a spurious ContentHandlerError in release): {e.describe()}", shared.state_loc(e.state))
                if a in gen:
                    v = True
                elif a in kill:
                    v = False
    # is_appropriate_end_tag needs an end tag token: create_end_tag must precede on all paths
    gen_e = {"create_end_tag"}
    kill_e = {"create_start_tag"} | kill_tok
    fact = must_analysis(g, gen_e, kill_e, entries)
    for st, s in aut.states.items():
        for l in s["leaves"]:
            if "is_appropriate_end_tag" in l["conds"]:
                node = st + ("#body" if s["enter"] is not None else "")
                key = "end-tag-token|" + st
                r.inst(key, nontrivial=False)
                if not fact[node]:
                    r.violate(key, f"{st} asks is_appropriate_end_tag although no end tag token may exist on some path", shared.state_loc(st))
                break


def rule_assert_preconditions_and_bounded_work(ctx, mir, rid="R15.12"):
    r = ctx.rule(rid, "callers respect eq_case_insensitive's asserted precondition (its second argument is debug_assert'ed to be lower-case: it is a lower-case byte-string constant or a name that went through the lower-casing constructor - never bytes taken from the document), and the per-name counters of the open-element stack shrink when elements close (otherwise every stray end tag scans the whole stack: work no longer proportional to the input)", "E-MIR operand provenance", floor=8)
    n = 0
    for f in mir.fns:
        if mir.is_test_fn(f):
            continue
        for bi, t in f.calls(r"eq_case_insensitive$"):
            if len(t["args"]) != 2:
                continue
            n += 1
            a1 = f.deep(t["args"][1])
            key = f"{f.key}|eq_case_insensitive#{n}"
            r.inst(key, sample={"lowercased_argument": a1[:80]})
            a0 = f.deep(t["args"][0])
            if a0.startswith('const b"') and not a1.startswith('const b"'):
                r.violate(key, f"{f.key} passes a constant ({a0[:40]}) as the mixed-case side and `{a1[:60]}` as the `lowercased` side of eq_case_insensitive: the arguments are swapped - a name with an upper-case letter trips the debug assertion (panic in debug builds) and compares case-sensitively in release builds", f.loc())
                continue
            m = re.match(r'^const b"((?:[^"\\\\]|\\\\.)*)"', a1)
            if m:
                if m.group(1) != m.group(1).lower():
                    r.violate(key, f"{f.key} passes the constant {m.group(1)!r} as the lower-case side of eq_case_insensitive: the comparison can never succeed (and the debug assertion fires)", f.loc())
            elif re.search(r"Lexeme::part\(|token_outline|Lexeme::input|\binput\b", a1):
                r.violate(key, f"{f.key} passes document bytes (`{a1[:90]}`) as the `lowercased` argument of eq_case_insensitive: a name with an upper-case letter trips its debug assertion (a panic in debug builds) and compares case-sensitively in release builds - the arguments are swapped", f.loc())
    if n < 8:
        raise EngineError(f"{rid}: only {n} eq_case_insensitive call sites found")
    sm.clause_open_name_counts_shrinks(r, mir)

