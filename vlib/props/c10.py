"""C10 Memory limit — accounting clauses."""
import json
import os
import re
from ..mirlib import load, callee_key, short_ty, CallGraph
from ..facts import EngineError, VERIF
from . import shared_mir as sm

CONTAINER_RX = re.compile(r"(^|[<( ])(std::vec::Vec|std::collections::\w+|hashbrown::\w+|std::string::String|memory::limited_vec::LimitedVec|memory::arena::Arena|rewritable_units::mutations::DynamicString|selectors_vm::stack::\w+Map|std::boxed::Box<\[)")


def uses_of(f, local):
    """[(kind, block, detail)] for every use of a whole local"""
    out = []
    for bi, b in enumerate(f.blocks):
        if b["cleanup"]:
            continue
        for st in b["stmts"]:
            if st["k"] != "assign":
                continue
            rv = st["rv"]
            ops = []
            if rv["k"] in ("use", "cast", "un", "repeat"):
                ops = [rv["o"]]
            elif rv["k"] == "bin":
                ops = [rv["a"], rv["b"]]
            elif rv["k"] == "agg":
                ops = rv["ops"]
            for o in ops:
                if o["k"] in ("copy", "move") and o["p"]["local"] == local:
                    out.append(("rvalue", bi, st))
            if rv["k"] in ("ref", "discr", "rawptr") and rv["p"]["local"] == local:
                out.append((rv["k"], bi, st))
        t = b["term"]
        if t["k"] == "call":
            for i, a in enumerate(t["args"]):
                if a["k"] in ("copy", "move") and a["p"]["local"] == local:
                    out.append(("arg", bi, t))
        elif t["k"] == "switch" and t["d"]["k"] in ("copy", "move") and t["d"]["p"]["local"] == local:
            out.append(("switch", bi, t))
        elif t["k"] == "drop" and t["p"]["local"] == local and not t["p"]["proj"]:
            out.append(("drop", bi, t))
    return out


def run(ctx):
    mir = load()

    rule_charge_before_grow(ctx, mir)

    rule_limit_errors(ctx, mir)

    # ------------------------------------------------------------------ R10.3
    r = ctx.rule("R10.3", "increase_usage adds first and fails exactly when the new usage exceeds max", "E-MIR", floor=1)
    f = mir.fn("SharedMemoryLimiter::increase_usage")
    gts = [(bi, st) for bi, b in enumerate(f.blocks) for st in b["stmts"] if st["k"] == "assign" and st["rv"]["k"] == "bin" and st["rv"]["op"] in ("Gt", "Ge", "Lt", "Le")]
    r.inst("compare", sample={"comparisons": [(st["rv"]["op"], f.describe_operand(st["rv"]["a"]), f.describe_operand(st["rv"]["b"])) for _, st in gts]})
    ok = False
    if len(gts) == 1:
        bi, st = gts[0]
        a, b = f.describe_operand(st["rv"]["a"]), f.describe_operand(st["rv"]["b"])
        if st["rv"]["op"] == "Gt" and a == "current_usage" and b == "self.max":
            sw = f.blocks[bi]["term"]
            if sw["k"] == "switch":
                true_t = sw["else"]
                errs = f.err_return_blocks()
                ok = any(e in f.reachable_blocks(true_t) for e in errs) and not any(e in f.reachable_blocks([x[1] for x in sw["ts"] if x[0] == 0][0]) for e in errs)
    if not ok:
        r.violate("compare", "increase_usage no longer fails exactly when previous + byte_count > max", f.loc())
    fa = list(f.calls(r"fetch_add$"))
    r.inst("fetch_add")
    if len(fa) != 1 or f.describe_operand(fa[0][1]["args"][1]) != "byte_count":
        r.violate("fetch_add", "increase_usage does not add byte_count to the shared counter", f.loc())

    # ------------------------------------------------------------------ R10.4
    r = ctx.rule("R10.4", "inventory of growable containers reachable from a rewriter: each is charged, bounded by the configuration, bounded by the (charged) current token, or a recorded finding; a new container field is reported", "E-MIR type-driven inventory", floor=40)
    table = json.load(open(os.path.join(VERIF, "spec", "containers.json")))["fields"]
    seen = set()
    cg = CallGraph(mir)
    roots = [p_ for p_, f_ in cg.fns.items() if f_.key in ("TransformStream::write", "TransformStream::end")]
    if len(roots) != 2:
        raise EngineError("R10.4: TransformStream::write/end not found")
    api_roots = [p_ for p_, f_ in cg.fns.items() if p_.startswith("rewritable_units::") and f_.rec["vis"] == "Public" and "{closure" not in p_]
    reach = cg.reachable(roots + api_roots)
    gs = grow_sites(mir, reach)
    r.count("functions_reachable_from_write_end_or_handler_api", len(reach))
    r.count("fields_with_growth_sites", len(gs))
    r.control(any("LimitedVec::push" in h for _, h, _ in gs.get("Stack.items", [])), "growth analysis sees LimitedVec::push on Stack.items")
    r.control(any("Arena::append" in h for _, h, _ in gs.get("TransformStream.buffer", [])), "growth analysis sees Arena::append on TransformStream.buffer")
    auto = []
    for p, a in sorted(mir.adts.items()):
        if "::tests" in p or "test_utils" in p:
            continue
        for v in a["variants"]:
            for fld in v["fields"]:
                if CONTAINER_RX.search(fld["ty"]):
                    key = p.split("::")[-1] + ("::" + v["name"] if a["enum"] else "") + "." + fld["name"]
                    seen.add(key)
                    ent = table.get(key)
                    sites = [(fn_, how) for fn_, how, _ in gs.get(key, []) if not _const_sized(how)]
                    r.inst(key, sample={"field": key, "type": fld["ty"][:80], "class": ent[0] if ent else None, "growth_sites": sorted(set(sites))[:6]})
                    desc = "; ".join("%s %s" % (fn_, how[:60]) for fn_, how in sorted(set(sites))[:4])
                    if ent is None:
                        if re.search(r"memory::(limited_vec::LimitedVec|arena::Arena)", fld["ty"]) and not re.search(r"std::vec::Vec|String|collections", fld["ty"].replace("memory::", "")):
                            auto.append({"field": key, "class": "charged (LimitedVec / Arena)"})
                        elif not sites:
                            auto.append({"field": key, "class": "no growth site reachable from write()/end() or the handler-facing API"})
                        else:
                            r.violate(key, f"unreviewed growable container `{key}: {fld['ty'][:80]}` grows while documents are processed ({desc}) and is not charged to the memory limiter (LimitedVec/Arena)", a["span"])
                    elif ent[0] == "finding":
                        r.violate(key, f"{key} grows with the document and is not charged to the memory limiter: {ent[1]}", a["span"])
                    elif ent[0] == "config" and sites:
                        r.violate(key + "|grows", f"{key} is sized by the configuration ({ent[1]}) but now grows while documents are processed: {desc} — uncharged, input-driven growth", a["span"])
                    elif ent[0] == "bounded":
                        extra = sorted(set(fn_ for fn_, _ in sites) - set(ent[2]))
                        if extra:
                            r.violate(key + "|grows", f"{key} ({ent[1]}) gained a growth site outside the reviewed ones {ent[2]}: {extra}", a["span"])
    r.analysed["auto_classified_unreviewed_fields"] = auto
    # the uncharged per-name index (finding F7) is at least bounded by the nesting depth: entries go away at zero
    sm.clause_open_name_counts_shrinks(r, mir)
    # ------------------------------------------------------------------ R10.5
    r = ctx.rule("R10.5", "one limiter per rewriter: SharedMemoryLimiter::new is called once, in HtmlRewriter::new, and the same limiter is handed to the selector VM stack and to the parsing buffer", "E-MIR", floor=3)
    callers = [(f, bi, t) for f, bi, t in mir.callers_of(r"SharedMemoryLimiter::new$") if not mir.is_test_fn(f)]
    r.inst("constructor|callers", sample={"callers": [f.key for f, _, _ in callers]})
    if [f.key for f, _, _ in callers] != ["HtmlRewriter::new"]:
        r.violate("constructor|callers", f"SharedMemoryLimiter::new is called from {[f.key for f, _, _ in callers]}; a rewriter must account everything against ONE limiter", None)
    else:
        f, bi, t = callers[0]
        lim = t["dest"]["local"]
        r.inst("constructor|limit-operand", sample={"max": f.deep(t["args"][0])})
        if f.field_path(t["args"][0]) is None or not f.field_path(t["args"][0]).endswith("MemorySettings.max_allowed_memory_usage") or f.deep(t["args"][0]) != "settings.memory_settings.max_allowed_memory_usage":
            r.violate("constructor|limit-operand", f"the limiter's maximum is `{f.deep(t['args'][0])[:100]}` instead of the configured max_allowed_memory_usage itself: the rewriter could retain / account more than the limit M (e.g. M + preallocated size)", f.loc())
        fs = list(f.calls(r"HtmlRewriteController::from_settings$"))
        ag = [st for b in f.blocks for st in b["stmts"] if st["k"] == "assign" and st["rv"]["k"] == "agg" and st["rv"]["name"].endswith("TransformStreamSettings")]
        r.inst("shared|controller")
        rp = f.root_place(fs[0][1]["args"][1]) if fs else None
        if not fs or rp is None or rp[0] != lim:
            r.violate("shared|controller", "the selector VM (open element stack) is not given the rewriter's memory limiter", f.loc())
        r.inst("shared|buffer")
        ok = False
        if ag:
            d = dict(zip(ag[0]["rv"]["fields"], ag[0]["rv"]["ops"]))
            rp = f.root_place(d["memory_limiter"]) if "memory_limiter" in d else None
            ok = rp is not None and rp[0] == lim
        if not ok:
            r.violate("shared|buffer", "the parsing buffer is not given the rewriter's memory limiter (stack and buffer would each get the full budget)", f.loc())
    for nm, pat in (("TransformStream::new", r"Arena::new$"), ("Stack::new", r"LimitedVec::new$")):
        f = mir.fn(nm)
        cs = list(f.calls(pat))
        r.inst(nm + "|uses-given-limiter")
        if len(cs) != 1 or "memory_limiter" not in f.describe_operand(cs[0][1]["args"][0]):
            r.violate(nm + "|uses-given-limiter", f"{nm} does not build its container from the limiter it was given", f.loc())

    # ------------------------------------------------------------------ R10.6
    r = ctx.rule("R10.6", "only unconsumed input is retained: TransformStream::write leaves has_buffered_data = false exactly when the parser consumed the whole chunk (strict `consumed < chunk.len()` for the buffering branch), so completely parsed chunks are never copied into the charged parsing buffer", "E-MIR", floor=3)
    sm.clause_directive_after_token(r, mir)
    w = mir.fn("TransformStream::write")
    cmp_ = [(bi, st["rv"]["op"], w.deep(st["rv"]["a"]), w.deep(st["rv"]["b"])) for bi, b in enumerate(w.blocks) for st in b["stmts"]
            if st["k"] == "assign" and st["rv"]["k"] == "bin" and st["rv"]["op"] in ("Lt", "Le", "Gt", "Ge", "Eq", "Ne") and "len(chunk)" in w.deep(st["rv"]["a"]) + w.deep(st["rv"]["b"])]
    r.inst("write|leftover-test", sample={"comparisons": [(op, a[:40], c[:40]) for _, op, a, c in cmp_]})
    sets = {w.deep(st["rv"]["o"]).split(":")[0]: bi for f2, bi, st in mir.field_writes("TransformStream", "has_buffered_data") if f2 is w and st["rv"]["k"] == "use"}
    r.inst("write|flag-writes", sample={"writes": sorted(sets)})
    ok = len(cmp_) == 1 and cmp_[0][1] == "Lt" and "Parser::parse(" in cmp_[0][2] and cmp_[0][3] == "[T]::len(chunk)" and set(sets) == {"const true", "const false"}
    if ok:
        sb = cmp_[0][0]
        t = w.blocks[sb]["term"]
        false_t = [x[1] for x in t["ts"] if x[0] == 0]
        ok = t["k"] == "switch" and bool(false_t) and w.dominates(false_t[0], sets["const false"]) and w.dominates(t["else"], sets["const true"]) and not w.dominates(false_t[0], sets["const true"])
    sm.clause_deactivate_counts(r, mir)
    r.inst("write|flag-cleared-when-all-consumed")
    if not ok:
        r.violate("write|flag-cleared-when-all-consumed", f"TransformStream::write no longer clears has_buffered_data exactly when consumed == chunk.len() (test: {[(op, a[:30], c[:30]) for _, op, a, c in cmp_]}): from then on every chunk is appended to the parsing buffer and charged to the memory limiter although nothing needs to be retained, so a run that needs no budget fails under a limit depending on the caller's chunk sizes", w.loc())

    # ------------------------------------------------------------------ R10.7 (shared with C09 R09.1)
    # with a capture active the lexer retains only the unfinished token: text is emitted (and its bytes released) at every chunk end
    from .c09 import rule_text_released
    from ..smgraph import automaton as _automaton
    rule_text_released(ctx, _automaton(), rid="R10.7")

    # ------------------------------------------------------------------ R10.8 / R10.9 (shared)
    # one-shot capture flags are cleared after use (otherwise the lexer keeps running and buffers whole comments / tags),
    # and void elements are popped at once (otherwise every <wbr> stays on the charged open-element stack)
    from .c05 import rule_flag_table
    from ..smimpl import index as _index10
    rule_flag_table(ctx, _index10(), mir, rid="R10.8")
    r = ctx.rule("R10.9", "void elements never stay on the open-element stack: complete decision table of Stack::get_stack_directive (shared with C04 R04.5)", "E-AST (finite-domain abstract interpretation)", floor=100)
    from .c04 import clause_stack_directive
    clause_stack_directive(r, _index10())

    # ------------------------------------------------------------------ R10.10 (generic, scoped to this property's anchors)
    sm.rule_named_plumbing(ctx, mir, "C10", "R10.10", floor=21)

    # ------------------------------------------------------------------ R10.11
    rule_errors_not_swallowed(ctx, mir)

    # ------------------------------------------------------------------ R10.12 (= R11.2)
    # what is buffered (and charged) after a chunk is exactly the unconsumed tail, never the whole chunk
    from .c11 import rule_flush_operands
    rule_flush_operands(ctx, mir, rid="R10.12")

    ctx.not_decided += ["monotonicity in M and equality of outputs across limits (relations between runs)", "that Vec::try_reserve_exact reserves exactly what was charged (allocator behaviour)"]
    return ("Accounting clauses: charge-dominates-grow on the two limited containers with operand identity, error discipline for every "
            "Result carrying MemoryLimitExceededError (23 sites), the comparison shape of the limiter, a type-driven inventory of every growable "
            "container field, and single-limiter sharing between the VM stack and the parsing buffer.")


def _sufficient_capacity_edges(f):
    """CFG edges on which `capacity - len` was found sufficient (Lt(free, need) false / Ge(free, need) true)"""
    out = []
    for sbi, b in enumerate(f.blocks):
        sw = b["term"]
        if sw["k"] != "switch":
            continue
        for st in b["stmts"]:
            if st["k"] == "assign" and st["rv"]["k"] == "bin" and st["rv"]["op"] in ("Ge", "Lt") and sw["d"]["k"] in ("copy", "move") and sw["d"]["p"]["local"] == st["p"]["local"]:
                free = f.deep(st["rv"]["a"])
                if "capacity" in free and "len" in free and "Sub" in free:
                    false_t = [x[1] for x in sw["ts"] if x[0] == 0]
                    if st["rv"]["op"] == "Lt" and false_t:
                        out.append((sbi, false_t[0]))
                    elif st["rv"]["op"] == "Ge":
                        out.append((sbi, sw["else"]))
    return out


GROW_RX = re.compile(r"(^|::)(push|push_back|push_front|push_str|insert|insert_\w+|extend|extend_from_slice|extend_from_within|reserve|reserve_exact|try_reserve|try_reserve_exact|resize|resize_with|append|entry|raw_entry_mut|or_insert\w*|write|write_all|write_str|write_fmt|push_item|add\w*|inc\w*|set\w*|init\w*)(\[\w+\])?$")
NOGROW_RX = re.compile(r"(^|::)(clear|pop|pop_back|pop_front|remove|swap_remove|truncate|iter_mut|get_mut|last_mut|first_mut|retain|retain_mut|drain|len|is_empty|align|as_mut|as_mut_slice|deref_mut|index_mut|sort\w*|dedup\w*|take|values_mut|get|contains\w*|iter|shrink_to_fit|split_off|borrow_mut|as_mut_ptr|fill|reverse|swap|as_mut_str|into_iter|make_ascii_lowercase|make_ascii_uppercase|copy_from_slice|copy_within)(\[\w+\])?$")
THROUGH_RX = re.compile(r"(^|::)(borrow_mut|deref_mut|deref|as_mut|unwrap|expect|get_mut|as_deref_mut|last_mut|first_mut|index_mut|as_mut_slice|borrow|as_ref|unwrap_or_default|get_or_insert_with|mutate)(\[\w+\])?$")
FRESH_RX = re.compile(r"(^|::)(new|default|with_capacity|with_hasher|with_capacity_and_hasher|take|from_settings|new_in)(\[\w+\])?$")


def _const_sized(how):
    """`assigned f(const .., const ..)`: a value whose size is fixed by constants"""
    m = re.match(r"assigned [\w:<>\[\]& ]+\((.*)\)$", how)
    return bool(m) and all(x.strip().startswith("const ") for x in m.group(1).split(", "))


def _field_keys(f, p):
    """inventory keys (Owner.field / Owner::Variant.field) of every field on the path of place p"""
    r = f._root_place_p(p)
    if r is None:
        return []
    # look through RefCell / Rc / Option accessors: `self.buf.borrow_mut().push(..)` grows `buf`
    proj = list(r[1])
    loc = r[0]
    for _ in range(8):
        if 1 <= loc <= f.rec["arg_count"]:
            break
        ds = f.defs_of(loc)
        if len(ds) != 1 or ds[0][0] != "call" or not THROUGH_RX.search(callee_key(ds[0][2])) or not ds[0][2]["args"]:
            break
        a0 = ds[0][2]["args"][0]
        if a0["k"] not in ("copy", "move"):
            break
        r2 = f._root_place_p(a0["p"])
        if r2 is None:
            break
        loc, proj = r2[0], list(r2[1]) + proj
    out = []
    variant = None
    for e in proj:
        if isinstance(e, dict) and "variant" in e:
            variant = e["variant"]
        elif isinstance(e, dict) and "f" in e:
            owner = short_ty(e["of"]).split("<")[0]
            out.append(owner + ("::" + variant if variant else "") + "." + e["f"])
            variant = None
        else:
            variant = None
    return out


def grow_sites(mir, reachable):
    """{inventory key: [(function, how, block)]} — places where a container field may grow inside
    functions reachable from write()/end() or from the handler-facing API."""
    out = {}
    for f in mir.fns:
        if f.path not in reachable:
            continue
        for bi, b in enumerate(f.blocks):
            if b["cleanup"]:
                continue
            for st in b["stmts"]:
                if st["k"] == "assign" and st["p"]["proj"]:
                    keys = _field_keys(f, st["p"])
                    if keys and isinstance(st["p"]["proj"][-1], dict) and "f" in st["p"]["proj"][-1]:
                        rv = st["rv"]
                        src = f.deep(rv["o"]) if rv["k"] == "use" else rv["k"]
                        if not FRESH_RX.search(src.split("(")[0]):
                            out.setdefault(keys[-1], []).append((f.key, "assigned " + src, bi))
            t = b["term"]
            if t["k"] != "call":
                continue
            ck = callee_key(t)
            if t["dest"]["proj"]:
                keys = _field_keys(f, t["dest"])
                if keys and not FRESH_RX.search(ck):
                    out.setdefault(keys[-1], []).append((f.key, "assigned " + ck, bi))
            for i, a in enumerate(t["args"]):
                if a["k"] not in ("copy", "move") or not t["atys"][i].startswith("&mut"):
                    continue
                keys = _field_keys(f, a["p"])
                if not keys:
                    continue
                if NOGROW_RX.search(ck):
                    continue
                how = ("grows via " if GROW_RX.search(ck) else "escapes to ") + ck
                for k in keys:
                    out.setdefault(k, []).append((f.key, how, bi))
    return out


def rule_charge_before_grow(ctx, mir, rid="R10.1"):
    # ------------------------------------------------------------------ R10.1
    r = ctx.rule(rid, "charge before grow: in memory::arena and memory::limited_vec every reservation on the backing Vec is dominated by the Ok edge of increase_usage computed from the same operands; every unconditional growth is dominated by such a reservation or by the sufficient-capacity branch; the backing fields are private", "E-MIR dominance", floor=6)
    for nm, field in (("Arena::append", "data"), ("LimitedVec::push", "vec")):
        f = mir.fn(nm)
        inc = list(f.calls(r"SharedMemoryLimiter::increase_usage$"))
        res = list(f.calls(r"Vec::try_reserve(_exact)?$|Vec::reserve(_exact)?$"))
        grow = list(f.calls(r"Vec::extend_from_slice$|Vec::push$|Vec::extend$|Vec::insert$|Vec::resize$"))
        key = nm
        r.inst(key + "|charge", sample={"fn": nm, "increase_usage": len(inc), "reserve": [callee_key(t) for _, t in res], "growth": [callee_key(t) for _, t in grow]})
        if len(inc) != 1 or len(res) != 1:
            r.violate(key + "|charge", f"{nm}: expected exactly one increase_usage and one reservation", f.loc())
            continue
        ibi, it = inc[0]
        rbi, rt = res[0]
        # Ok edge of increase_usage?: the `?` branch: continue target dominates the reservation, error edge returns
        if not f.dominates(ibi, rbi):
            r.violate(key + "|order", f"{nm} reserves memory before (or without) charging it to the limiter", f.loc())
        errs = f.err_return_blocks()
        if not f.can_reach_without(it["t"], set(errs), {rbi}):
            r.violate(key + "|err-edge", f"{nm}: a refused charge does not return the error before reserving", f.loc())
        if "try_reserve" not in callee_key(rt):
            r.violate(key + "|fallible", f"{nm} uses the aborting {callee_key(rt)} instead of try_reserve*", f.loc())
        # operands
        ia = f.describe_operand(it["args"][1])
        ra = f.describe_operand(rt["args"][1])
        r.inst(key + "|operands", sample={"charged": ia, "reserved": ra})
        if nm == "Arena::append":
            # charged = slice.len() + len - capacity ; reserved = slice.len()
            txt = f.deep(it["args"][1])
            if not ("len(slice)" in txt and "Vec::len(self.data)" in txt and "Vec::capacity(self.data)" in txt and "Sub" in txt and "Add" in txt):
                r.violate(key + "|charged-amount", f"Arena::append charges `{txt}`, expected slice.len() + len - capacity (the growth of the buffer)", f.loc())
            ra = f.deep(rt["args"][1])
            if ra != "[T]::len(slice)":
                r.violate(key + "|reserved-amount", f"Arena::append reserves `{ra}`, expected slice.len()", f.loc())
        else:
            cm0 = list(f.calls(r"usize::checked_mul$|checked_mul$"))
            same_root = bool(cm0) and f.root_place(rt["args"][1]) is not None and f.root_place(cm0[0][1]["args"][0]) is not None and f.root_place(rt["args"][1])[0] == f.root_place(cm0[0][1]["args"][0])[0]
            same_expr = bool(cm0) and f.deep(rt["args"][1]) == f.deep(cm0[0][1]["args"][0])
            if not (same_root and same_expr):
                r.violate(key + "|reserved-amount", f"LimitedVec::push reserves `{f.deep(rt['args'][1])[:100]}` elements but charged for `{f.deep(cm0[0][1]['args'][0])[:100] if cm0 else '?'}`: the element count that is reserved must be the very value that was multiplied by size_of::<T>() and charged", f.loc())
            cm = list(f.calls(r"usize::checked_mul$|checked_mul$"))
            ok = len(cm) == 1 and "size_of" in f.describe_operand(cm[0][1]["args"][1])
            charged_from_mul = len(cm) == 1 and ("checked_mul(" + f.deep(cm[0][1]["args"][0])) in f.deep(it["args"][1])
            if not ok or not charged_from_mul:
                r.violate(key + "|charged-amount", f"LimitedVec::push charges `{ia}`, expected additional.checked_mul(size_of::<T>())", f.loc())
        for gbi, gt in grow:
            k2 = key + "|growth:" + callee_key(gt)
            r.inst(k2)
            if not (f.dominates(rbi, gbi) or gbi not in f.reachable_without_edges(0, removed_blocks=[rbi], removed_edges=_sufficient_capacity_edges(f))):
                r.violate(k2, f"{nm}: {callee_key(gt)} can grow the backing vector without a preceding charged reservation or capacity check", f.loc())
    for adt, fld in (("Arena", "data"), ("LimitedVec", "vec")):
        a = mir.adt(adt)
        v = [x["vis"] for x in a["variants"][0]["fields"] if x["name"] == fld]
        r.inst(f"{adt}.{fld}|private", sample={"vis": v})
        if not v or "Restricted" not in v[0] or "memory::" not in v[0]:
            r.violate(f"{adt}.{fld}|private", f"{adt}.{fld} is visible outside its module ({v}): other code could grow it without charging", None)
        # who touches the field mutably outside the owner type
        outside = sorted(set(f.key for f in mir.fns if not mir.is_test_fn(f) and f.owner != adt and f"{adt}.{fld}" in (sm.fields_written(f) | sm.fields_read(f))))
        r.inst(f"{adt}.{fld}|accessors", sample={"outside": outside})
        if outside:
            r.violate(f"{adt}.{fld}|accessors", f"{adt}.{fld} is accessed from {outside}", None)
    an = mir.fn("Arena::new")
    r.inst("Arena::new|special-case")
    cl = [g for g in mir.fns if g.key.startswith("Arena::new::{closure")]
    rs = [callee_key(t) for g in cl for bi, t in g.calls(r"try_reserve")]
    inc = list(an.calls(r"increase_usage$"))
    at = list(an.calls(r"Option::and_then$"))
    if not (len(inc) == 1 and len(at) == 1 and rs and an.dominates(inc[0][0], at[0][0]) and not list(an.calls(r"try_reserve|reserve"))):
        r.violate("Arena::new|special-case", "Arena::new no longer reserves only inside the and_then closure applied to the result of increase_usage", an.loc())



def rule_limit_errors(ctx, mir, rid="R10.2"):
    # ------------------------------------------------------------------ R10.2
    r = ctx.rule(rid, "limit errors are never dropped or re-labelled: every Result<_, MemoryLimitExceededError> is propagated with `?`, returned, or mapped into RewritingError::/VmError::MemoryLimitExceeded", "E-MIR error discipline", floor=12)
    PLUMB = re.compile(r"from_residual|Result::branch|Result::map_err$|Option::ok_or$")
    TABLE = {("Arena::new", "SharedMemoryLimiter::increase_usage"): "constructor cannot report; failure is turned into 'not preallocated' (see known finding F3)"}
    n = 0
    for f in mir.fns:
        if mir.is_test_fn(f):
            continue
        for bi, t in f.calls():
            ck = callee_key(t)
            dl = t["dest"]["local"]
            ty = f.rec["locals"][dl]
            if not (ty.startswith("std::result::Result") and "MemoryLimitExceededError" in ty):
                continue
            if re.search(r"from_residual|Result::branch", ck):
                continue
            n += 1
            key = f"{f.key}|{ck}"
            verdict = None
            if dl == 0 and not t["dest"]["proj"]:
                verdict = "returned"
            us = uses_of(f, dl)
            for kind, ubi, x in us:
                if kind == "arg":
                    c2 = callee_key(x)
                    if c2.endswith("branch[Try]"):
                        verdict = verdict or "propagated with ?"
                    elif c2 == "Result::map_err":
                        fn_arg = x["args"][1]
                        d = f.describe_operand(fn_arg)
                        good = "MemoryLimitExceeded" in d
                        if not good:
                            # closure: look into its body
                            rp = f.root_place(fn_arg) if fn_arg["k"] in ("copy", "move") else None
                            for g in mir.fns:
                                if g.closure_suffix and g.path.startswith(f.path + "::{closure"):
                                    if ("closure@" in d or g.path in d) or True:
                                        names = [st["rv"]["name"] for b in g.blocks for st in b["stmts"] if st["k"] == "assign" and st["rv"]["k"] == "agg"]
                                        if g.path in d or ("{closure" in d and g.path.split("::")[-1] in d):
                                            good = any(nm_.endswith("MemoryLimitExceeded") or nm_.endswith("MemoryLimitExceededError") for nm_ in names)
                        verdict = "mapped" if good else "RELABELLED"
                        if not good:
                            r.inst(key, sample={"site": f.key, "call": ck, "fate": "map_err to " + d})
                            r.violate(key, f"{f.key}: the memory-limit error of {ck} is mapped to something other than MemoryLimitExceeded (`{d}`): the caller sees the wrong error kind and the wrong graceful-bail-out flag applies", f.loc())
                    elif c2 in ("Result::ok", "Result::is_ok", "Result::is_err", "mem::drop", "Result::unwrap_or_default", "Result::unwrap_or"):
                        if (f.key, ck) in TABLE:
                            verdict = "reviewed: " + TABLE[(f.key, ck)]
                        else:
                            verdict = "DROPPED"
                            r.inst(key)
                            r.violate(key, f"{f.key}: the memory-limit error of {ck} is discarded by {c2}", f.loc())
                    else:
                        verdict = verdict or ("passed to " + c2)
                elif kind in ("discr", "switch"):
                    # matched: on the Err edge of *this* match a *::MemoryLimitExceeded error must be built before returning
                    sw_bi = None
                    if kind == "switch":
                        sw_bi = ubi
                    else:
                        dl2 = x["p"]["local"]
                        for b2i, b2 in enumerate(f.blocks):
                            t2 = b2["term"]
                            if t2["k"] == "switch" and t2["d"]["k"] in ("copy", "move") and t2["d"]["p"]["local"] == dl2:
                                sw_bi = b2i
                    wrapped = False
                    if sw_bi is not None:
                        t2 = f.blocks[sw_bi]["term"]
                        err_t = [y[1] for y in t2["ts"] if y[0] == 1]
                        err_t = err_t[0] if err_t else t2["else"]
                        ok_t = [y[1] for y in t2["ts"] if y[0] == 0]
                        region = f.reachable_blocks(err_t) - (f.reachable_blocks(ok_t[0], avoid=[err_t]) if ok_t else set()) | {err_t}
                        wrap_blocks = set(b2i for b2i, b2 in enumerate(f.blocks) for st2 in b2["stmts"] if st2["k"] == "assign" and st2["rv"]["k"] == "agg" and st2["rv"]["name"].endswith("::MemoryLimitExceeded"))
                        rets = set(f.return_blocks())
                        wrapped = bool(wrap_blocks) and (err_t in wrap_blocks or not f.can_reach_without(err_t, rets, wrap_blocks))
                    if wrapped:
                        verdict = verdict or "matched and wrapped in MemoryLimitExceeded"
                    else:
                        verdict = verdict or "MATCHED-NOT-WRAPPED"
                elif kind == "rvalue":
                    verdict = verdict or "moved"
            if verdict is None:
                verdict = "UNUSED"
            if verdict in ("RELABELLED", "DROPPED"):
                continue
            r.inst(key, sample={"site": f.key, "call": ck, "fate": verdict})
            if verdict in ("UNUSED", "MATCHED-NOT-WRAPPED"):
                r.violate(key, f"{f.key}: the Result of {ck} carrying a memory-limit error is {verdict.lower()}", f.loc())
    if n < 12:
        raise EngineError("R10.2: fewer than 12 memory-limit results found")
    # the aux-info path maps the VM error kind explicitly
    rc = mir.fn("HtmlRewriteController::handle_start_tag[TransformController]")
    aggs = [st["rv"]["name"] for b in rc.blocks for st in b["stmts"] if st["k"] == "assign" and st["rv"]["k"] == "agg"]
    r.inst("controller|vm-error-mapping", sample={"aggregates": sorted(set(a.split('::')[-1] for a in aggs))})
    if not any(a.endswith("RewritingError::MemoryLimitExceeded") for a in aggs):
        r.violate("controller|vm-error-mapping", "HtmlRewriteController::handle_start_tag no longer maps VmError::MemoryLimitExceeded to RewritingError::MemoryLimitExceeded", rc.loc())


# Results that are examined and whose Err edge may legitimately end in a normal return: (function, error type) ->
# (number of such examinations, an Err return must stay reachable from the Err edge, reason)
HANDLED_LOCALLY = {
    ("HtmlRewriteController::handle_start_tag[TransformController]", "VmError"): (1, False, "VmError is translated variant by variant into DispatcherError (InfoRequest is a request for the lexeme, MemoryLimitExceeded becomes RewritingError) and returned as this function's own Err"),
    ("Parser::parse", "ActionError"): (1, True, "the parse loop always ends with Err: ParsingTermination::EndOfInput is the normal end (Ok(consumed)), every other ActionError is returned"),
    ("DynamicString::encode", "StreamingHandler"): (1, True, "Mutex::into_inner: both arms carry the handler (a poisoned lock is not a failure here)"),
    ("TextDecoder::split_utf8_start", "usize"): (1, True, "Err carries valid_up_to, not a failure"),
    ("IncompleteUtf8Resync::utf8_bytes_to_slice", "Utf8Error"): (1, True, "the Utf8Error's valid_up_to drives the resynchronisation"),
    ("Attributes::remove_attribute", "AttributeNameError"): (1, False, "a name that is not a valid attribute name cannot be present: nothing to remove"),
    ("Dispatcher::adjust_capture_flags_for_tag_lexeme", "DispatcherError"): (2, True, "InfoRequest asks for the lexeme (handled here); the RewritingError variant is returned"),
    ("Dispatcher::handle_start_tag_hint[TagHintSink]", "DispatcherError"): (2, True, "InfoRequest switches the parser to the lexer (handled here); the RewritingError variant is returned"),
    ("Expr::compile[Compilable]", "HasReplacementsError"): (1, False, "a name that cannot be encoded in the document encoding can never match: compiled to a never-matching instruction"),
}


def rule_errors_not_swallowed(ctx, mir, rid="R10.11"):
    from ..mirlib import swallowed_errors, examined_results
    r = ctx.rule(rid, "no error is swallowed: wherever a whole Result is examined (match / if let) in a non-test function, its Err edge leads to a block that builds this function's Err return, except at the reviewed sites that handle the error locally (table with reasons); at those of the reviewed sites that propagate one variant, an Err return stays reachable from the Err edge", "E-MIR path reachability", floor=15)
    found = {}
    n = 0
    for f in mir.fns:
        if mir.is_test_fn(f):
            continue
        n += len(examined_results(f))
        for sb, loc, ty, canerr in swallowed_errors(f):
            et = ty[len("std::result::Result<"):-1].rsplit(", ", 1)[-1]
            while et.startswith("std::boxed::Box<") and et.endswith(">"):
                et = et[len("std::boxed::Box<"):-1]
            et = re.sub(r"<.*", "", et.replace("dyn ", "")).split(" ")[0].split("::")[-1]
            found.setdefault((f.key, et), []).append((f, sb, loc, ty, canerr))
    for key, lst in found.items():
        f = lst[0][0]
        k = "%s|%s" % key
        r.inst(k, sample={"function": key[0], "error_type": key[1], "examinations": len(lst), "err_return_reachable": [x[4] for x in lst]})
        rev = HANDLED_LOCALLY.get(key)
        if rev is None or len(lst) > rev[0]:
            what = f.deep({"k": "copy", "p": {"local": lst[-1][2], "proj": []}})[:100]
            r.violate(k, f"{key[0]} examines `{what}` (Result<_, {key[1]}>) and continues to a normal return on its Err edge: the error (a memory-limit or handler failure travels in this type) is dropped and the caller sees success", f.loc())
        elif rev[1] and not any(x[4] for x in lst):
            r.violate(k + "|propagates", f"{key[0]}: no Err return is reachable any more from the Err edge of the examined Result<_, {key[1]}> ({rev[2]})", f.loc())
    for key in HANDLED_LOCALLY:
        r.inst("reviewed|%s|%s" % key, nontrivial=False)
    r.count("results_examined", n)
    if n < 15:
        raise EngineError(f"{rid}: only {n} examined Results found")

