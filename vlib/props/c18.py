"""C18 Deterministic, isolated instances — no shared mutable state, Send witnesses."""
import re
from ..mirlib import load, callee_key
from ..facts import EngineError
from . import shared, shared_mir as sm

REVIEWED_UNSAFE_IMPLS = {
    ("c-api", "Send", "streaming::CStreamingHandler"): "documented contract of the C struct (lol_html.h / doc comment: user data and callbacks must be usable from another thread); it carries caller-owned pointers only",
}
ALLOWED_THREAD_LOCALS = {"errors::LAST_ERROR": "the C API's per-thread last-error slot (documented in lol_html.h)"}


def run(ctx):
    core = load("lol_html")
    capi = load("capi")

    # ------------------------------------------------------------------ R18.1
    r = ctx.rule("R18.1", "no shared mutable state: every static of both crates is immutable and Freeze; the only thread-local is the C API's LAST_ERROR; no `static mut`, no unsafe impl Sync/Send", "E-MIR", floor=1)
    n = 0
    for crate, m in (("lol_html", core), ("c-api", capi)):
        r.count(crate + "_statics", len(m.statics))
        for s in m.statics:
            n += 1
            base = s["path"].split("::{constant")[0]
            key = f"{crate}|{base}"
            r.inst(key, sample={"crate": crate, "static": s["path"], "type": s["ty"][:80], "thread_local": s["thread_local"], "freeze": s["freeze"], "mut": s["mut"]})
            if s["mut"]:
                r.violate(key + "|mut", f"`static mut` {s['path']} in {crate}: process-wide mutable state shared by all rewriters/threads", s["span"])
            elif s["thread_local"]:
                if not (crate == "c-api" and base in ALLOWED_THREAD_LOCALS):
                    r.violate(key + "|thread-local", f"thread-local state {base} in {crate}: a rewrite would depend on what the same thread did before (e.g. a cache), so repeating it or moving it to another thread can change its result", s["span"])
            elif not s["freeze"]:
                r.violate(key + "|interior-mutability", f"static {s['path']}: {s['ty'][:80]} has interior mutability and is shared by all threads/instances", s["span"])
        for i in m.impls:
            tr = i["trait"].split("::")[-1]
            if tr in ("Sync", "Send") and i["unsafe_trait"] and not i["neg"]:
                key = f"{crate}|unsafe impl {tr} for {i['self_ty']}"
                rev = REVIEWED_UNSAFE_IMPLS.get((crate, tr, i["self_ty"]))
                r.inst(key, sample={"impl": key, "reviewed": rev})
                if rev is None:
                    r.violate(key, f"unsafe impl {tr} for {i['self_ty']} in {crate}: thread-safety asserted by hand", i["span"])
    r.inst("c-api|LAST_ERROR-present", sample={"thread_locals": sorted(set(s["path"].split("::{constant")[0] for s in capi.statics if s["thread_local"]))})
    if not any(s["thread_local"] and s["path"].startswith("errors::LAST_ERROR") for s in capi.statics):
        r.violate("c-api|LAST_ERROR-present", "the C API's LAST_ERROR is no longer a thread-local: an error recorded on one thread would be visible to / cleared by another", None)
    # positive control: the classifier must flag a non-Freeze plain static
    fake = {"path": "x::COUNTER", "ty": "std::sync::atomic::AtomicUsize", "mut": False, "freeze": False, "thread_local": False}
    r.control((not fake["mut"]) and (not fake["thread_local"]) and (not fake["freeze"]), "a synthetic `static X: AtomicUsize` is classified as shared mutable state")

    # ------------------------------------------------------------------ R18.2
    r = ctx.rule("R18.2", "sharing is per rewriter: the shared limiter and the shared encoding cell are created only inside HtmlRewriter::new; clones go to parts of the same rewriter", "E-MIR who-may-call", floor=2)
    callers = sorted(set(f.key for f, bi, t in core.callers_of(r"SharedMemoryLimiter::new$") if not core.is_test_fn(f)))
    r.inst("SharedMemoryLimiter::new", sample={"callers": callers})
    if callers != ["HtmlRewriter::new"]:
        r.violate("SharedMemoryLimiter::new", f"SharedMemoryLimiter::new is called from {callers}", None)
    enc = []
    for f in core.fns:
        if core.is_test_fn(f):
            continue
        for bi, t in f.calls(r"default\[Default\]$|Arc::new$|OnceLock.*::new$"):
            ty = f.rec["locals"][t["dest"]["local"]]
            if "OnceLock" in ty and "AsciiCompatibleEncoding" in ty:
                enc.append(f.key)
    r.inst("SharedEncoding::default", sample={"constructed_in": sorted(set(enc))})
    if sorted(set(enc)) != ["HtmlRewriter::new"]:
        r.violate("SharedEncoding::default", f"the shared encoding cell is created in {sorted(set(enc))}; it must be per rewriter", None)
    # state that can be shared between instances lives in reference-counted interior-mutable fields: the reviewed ones
    # are created per rewriter (above); any other such field (e.g. an Arc<AtomicBool> kept in the C API's builder and
    # cloned into every rewriter built from it) couples instances
    SHARED_OK = {("lol_html", "SharedMemoryLimiter", "current_usage"): "created per rewriter (SharedMemoryLimiter::new callers, above)",
                 ("lol_html", "TransformStreamSettings", "next_encoding"): "the rewriter's own SharedEncoding",
                 ("lol_html", "Dispatcher", "next_encoding"): "the rewriter's own SharedEncoding",
                 ("lol_html", "StringChunk", "0"): "Mutex around one streaming handler owned by one token (Sync wrapper, not shared)"}
    for cname, m_ in (("lol_html", core), ("capi", capi)):
        for p_, a in sorted(m_.adts.items()):
            if "::tests" in p_ or "test_utils" in p_:
                continue
            for v in a["variants"]:
                for fld in v["fields"]:
                    if re.search(r"(Arc|Rc)<.*(Atomic|Mutex|RwLock|Cell|OnceLock|OnceCell|Lazy)|^std::sync::atomic|Mutex<|RwLock<", fld["ty"]):
                        k3 = (cname, p_.split("::")[-1], fld["name"])
                        key = "shared-field|%s.%s" % (k3[1], k3[2])
                        r.inst(key, sample={"crate": cname, "field": k3[1] + "." + k3[2], "type": fld["ty"][:70], "reviewed": SHARED_OK.get(k3)})
                        if k3 not in SHARED_OK:
                            r.violate(key, f"{k3[1]}.{k3[2]}: {fld['ty'][:80]} is shareable mutable state outside the per-rewriter limiter / encoding cell: every clone of it (e.g. one per rewriter built from the same builder) sees the others' writes, so one instance's events change another's results", a["span"])
    # Arc/Rc/Mutex statics or lazies anywhere else in the core crate
    lazy = sorted(set(f.key for f in core.fns if not core.is_test_fn(f) for bi, t in f.calls(r"LazyLock|OnceLock.*::get_or_init$|Lazy::|thread::local|LocalKey")))
    lazy = [l for l in lazy if not l.startswith("Dispatcher::flush_encoding_change")]
    r.inst("lazy-globals", sample={"users": lazy})
    if lazy:
        r.violate("lazy-globals", f"lazily initialised global / thread-local state is used in {lazy}", None)

    # ------------------------------------------------------------------ R18.3
    r = ctx.rule("R18.3", "hash-order independence: iterations over hash maps/sets are enumerated and must be order-insensitive (per-entry effect only)", "E-MIR inventory", floor=1)
    sm.clause_raw_entry_compares_keys(r, core)
    REVIEWED = {"TypedChildCounterMap::pop_to|HashMap::retain": "retain with a per-entry predicate: each entry is updated/removed independently of the others"}
    found = []
    for f in core.fns:
        if core.is_test_fn(f):
            continue
        for bi, t in f.calls(r"HashMap|HashSet|hash_map|hash_set|RawTable"):
            ck = callee_key(t)
            full = (t["callee"] or t["raw"])
            if not re.search(r"hashbrown::|std::collections::hash|foldhash", full):
                continue  # e.g. DenseHashSet is a bit set iterated in ascending id order
            if re.search(r"::(iter|iter_mut|retain|drain|keys|values|values_mut|into_iter|extract_if|into_keys|into_values)(\[|$)", ck):
                found.append((f, ck))
    for f, ck in found:
        key = f"{f.key}|{ck}"
        r.inst(key, sample={"site": f.key, "call": ck, "reviewed": REVIEWED.get(key)})
        if key not in REVIEWED:
            r.violate(key, f"{f.key} iterates a hash container ({ck}): output or events could depend on the per-instance random hash seed", f.loc())
    if not found:
        raise EngineError("R18.3: no hash iteration found at all (expected the reviewed retain in TypedChildCounterMap::pop_to)")

    # ------------------------------------------------------------------ R18.4
    r = ctx.rule("R18.4", "Send: a send::HtmlRewriter is Send and rejects non-Send handlers; the default rewriter with an Rc-capturing handler is not Send (compile-time witnesses with compiling twins)", "E-TYPE", floor=2)
    shared.check_witness(r, "R18_4SendHandlers", "Settings::new_send() accepts a handler capturing an Rc (the Send rewriter could carry non-Send state across threads)")
    shared.check_witness(r, "R18_4LocalNotSend", "the default HtmlRewriter with an Rc-capturing handler is Send")

    # ------------------------------------------------------------------ R18.5
    r = ctx.rule("R18.5", "LAST_ERROR is touched only by save_last_error / lol_html_take_last_error, through the non-panicking try_with", "E-MIR", floor=2)
    # the thread-local slot carries nothing from an earlier, unrelated instance: a new error always replaces it
    from .c17 import clause_last_error_overwritten
    clause_last_error_overwritten(r, capi)
    users = {}
    for f in capi.fns:
        for bi, t in f.calls(r"LocalKey"):
            users.setdefault(f.key.split("::{closure")[0], set()).add(callee_key(t))
    r.inst("users", sample={k: sorted(v) for k, v in users.items()})
    if set(users) != {"errors::save_last_error", "errors::lol_html_take_last_error"}:
        r.violate("users", f"LAST_ERROR is accessed from {sorted(users)}", None)
    for k, v in users.items():
        r.inst(k + "|try_with")
        if not all(c.endswith("try_with") for c in v):
            r.violate(k + "|try_with", f"{k} accesses the thread-local with {sorted(v)} (a panic during thread teardown would unwind into C)", None)

    # ------------------------------------------------------------------ R18.6 (generic, scoped to this property's anchors)
    sm.rule_named_plumbing(ctx, core, "C18", "R18.6", floor=3)

    ctx.not_decided += ["equality of outputs between concurrent and sequential runs as such (a run-time relation); determinism is decided through absence of shared state"]
    return ("Absence-of-shared-state scans over both crates (statics with their Freeze/thread_local/mut classification from rustc, unsafe Send/Sync impls, "
            "lazy globals, hash iteration) plus compile-time Send witnesses.")
