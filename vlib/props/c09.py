"""C09 Low output latency — hold-back clauses decided on the extracted automaton."""
from ..smgraph import Graph, automaton, transfer
from ..sm import NONE, seq_arms, fmt_mask
from ..smimpl import index, tag_start_effects, impl_methods, field_effects
from ..astlib import walk
from ..facts import EngineError
from . import shared


def run(ctx):
    aut = automaton()
    g = Graph(aut)
    idx = index()

    rule_text_released(ctx, aut)

    # ---------------------------------------------------------------- R09.2
    gen, kill, ms = tag_start_effects(idx)
    r = ctx.rule("R09.2a", "TagScanner.tag_start (held-back start of a tag) is never live on a cycle of the automaton other than tag-name self-loops", "E-SM+E-AST", floor=60)
    if not gen or not kill:
        raise EngineError("R09.2: no action sets/clears TagScanner.tag_start (anchor moved)")
    r.analysed["gen_actions"] = sorted(gen)
    r.analysed["kill_actions"] = sorted(kill)
    repaired = set()
    def names_rep(e):
        nm = e.names()
        if e.leaf is not None and id(e.leaf) in repaired:
            nm = ["@repair-kill"] + nm
        return nm
    def analyse(gen, kill):
        fact = {n: False for n in g.nodes}
        wit = {}
        changed = True
        while changed:
            changed = False
            for e in g.edges():
                v = transfer(fact[e.src], names_rep(e), gen, kill)
                if e.dst is not None and v and not fact[e.dst]:
                    fact[e.dst] = True; wit[e.dst] = e; changed = True
        return fact, wit
    def allowed_selfloop(e):
        return e.src == e.dst and e.kind == "stay" and e.names() == ["update_tag_name_hash"]
    def roots_of(fact, gen, kill):
        """first-level edges entering a strongly connected set of propagate-only edges with the mark live.
        P: edges that merely propagate a live mark (no gen: a re-mark releases the older bytes; no kill)"""
        def has(e, names):
            return any(a in names for a in names_rep(e))
        live = [e for e in g.edges() if e.dst is not None and transfer(fact[e.src], names_rep(e), gen, kill)]
        P = [e for e in live if fact[e.src] and not has(e, gen) and not has(e, kill) and not allowed_selfloop(e)]
        succ = {}
        for e in P:
            succ.setdefault(e.src, set()).add(e.dst)
        def reach(a, succ):
            seen = set(); todo = [a]
            while todo:
                x = todo.pop()
                for y in succ.get(x, ()):
                    if y not in seen:
                        seen.add(y); todo.append(y)
            return seen
        cyc_nodes = set(n for n in succ if n in reach(n, succ))
        reach_c = {n: reach(n, succ) for n in cyc_nodes}
        lsucc = {}
        for e in live:
            if fact[e.src] and not has(e, gen):
                lsucc.setdefault(e.src, set()).add(e.dst)
        downstream = set()
        for n in cyc_nodes:
            downstream |= reach(n, lsucc)
        roots = []
        for e in live:
            if e.dst in cyc_nodes:
                same = e.src in cyc_nodes and e.dst in reach_c.get(e.src, ()) and e.src in reach_c.get(e.dst, ())
                if not same and e.src not in downstream:
                    roots.append(e)
        return roots, cyc_nodes
    kill_rep = set(kill) | {"@repair-kill"}
    r.count("edges", sum(1 for _ in g.edges()))
    fact, wit = analyse(gen, kill_rep)
    for n in g.nodes:
        r.inst(n, nontrivial=fact[n])
    for _round in range(20):
        fact, wit = analyse(gen, kill_rep)
        roots, cyc_nodes = roots_of(fact, gen, kill_rep)
        if not cyc_nodes:
            break
        r.count("held_cycle_nodes", len(cyc_nodes))
        if not roots:
            r.violate("cycle:" + ",".join(sorted(cyc_nodes)), "tag_start stays marked on a cycle through " + ",".join(sorted(cyc_nodes)), None)
            break
        for e in roots:
            if id(e.leaf) in repaired:
                continue
            repaired.add(id(e.leaf))
            key = "%s|%s|%s" % (e.state, fmt_mask(e.c0), ">".join(e.names()))
            r.violate(key, "tag_start is still marked when this edge enters a cycle (%s) that never clears or re-marks it, so the scanner holds back an unbounded run of bytes: %s" % (e.dst, e.describe()), shared.state_loc(e.state))
    # positive control: with no action clearing tag_start a held cycle must be found
    save = set(repaired); repaired.clear()
    f2, _ = analyse(gen, set())
    _, ctrl_cyc = roots_of(f2, gen, set())
    repaired |= save
    r.control(len(ctrl_cyc) > 0, "with no action clearing tag_start a held cycle must be found")

    r = ctx.rule("R09.2b", "nothing is held back in ordinary text or after a complete token: tag_start is clear on entry to the six text states and after emit_tag / emit_current_token / emit_raw_without_token", "E-SM+E-AST", floor=20)
    # consequences of edges already reported by R09.2a are not reported twice: evaluate on the automaton with those leaves repaired
    fact_r, wit_r = analyse(gen, kill_rep)
    for st in sorted(g.text_nodes):
        r.inst("entry:" + st)
        if fact_r[st]:
            e = wit_r[st]
            r.violate("entry:" + st, f"text state {st} can be entered with tag_start still marked (via {e.describe()})", shared.state_loc(e.state))
    for e in g.edges():
        nm = names_rep(e)
        for em in ("emit_tag", "emit_current_token", "emit_raw_without_token"):
            if em in nm:
                key = "%s|%s|%s" % (e.state, fmt_mask(e.c0), em)
                r.inst(key)
                v = fact_r[e.src]
                for a in nm:
                    if a in gen:
                        v = True
                    elif a in kill_rep:
                        v = False
                    if a == em:
                        break
                if v:
                    r.violate(key, f"{em} with tag_start still marked: {e.describe()}", shared.state_loc(e.state))

    r, nseq = rule_seq_mark(ctx, aut)
    from ..mirlib import load as _load0
    from . import shared_mir as _sm0
    _sm0.clause_seq_mark_writes(r, _load0())
    sm_ms = impl_methods(idx, "TagScanner", "StateMachine")
    writers = sorted(n for n, f in sm_ms.items() for fld, e, _ in field_effects(f) if fld == "ch_sequence_matching_start")
    writers += sorted(n for n, f in ms.items() for fld, e, _ in field_effects(f) if fld == "ch_sequence_matching_start")
    r.analysed["writers_of_ch_sequence_matching_start"] = writers
    if sorted(writers) != ["enter_ch_sequence_matching", "leave_ch_sequence_matching"]:
        r.violate("writers", "TagScanner.ch_sequence_matching_start is written by %s (expected only enter/leave_ch_sequence_matching)" % writers, "src/parser/tag_scanner/mod.rs")

    rule_consumed_count(ctx, idx)

    # ------------------------------------------------------------------ R09.6
    r = ctx.rule("R09.6", "the dispatcher asks for end-tag lexemes on its own only while emission is disabled: in handle_end_tag_hint the NEXT_END_TAG capture flag is added under should_stop_removing_element_content(), which requires !emission_enabled; otherwise every end tag would be handed to the lexer and held back until its `>`", "E-MIR control dependence", floor=2)
    from ..mirlib import load as _load, guarding_branches as _gb, callee_key as _ck
    from . import shared_mir as _sm
    _mir = _load()
    from . import shared_mir as _sm
    _sm.clause_directive_after_token(r, _mir)
    he = _mir.fn("Dispatcher::handle_end_tag_hint[TagHintSink]")
    ors = [bi for bi, t in he.calls(r"bitor_assign|BitOr|TokenCaptureFlags::union|insert$")]
    r.inst("end_tag_hint|flag-guard", sample={"flag_additions": len(ors)})
    okg = bool(ors) and all(any("should_stop_removing_element_content(" in he.deep(he.blocks[sb]["term"]["d"]) for sb in _gb(he, bi)) for bi in ors)
    if not okg:
        r.violate("end_tag_hint|flag-guard", "handle_end_tag_hint adds the NEXT_END_TAG capture flag without (or under something other than) should_stop_removing_element_content(): end tags are lexed in full although no handler needs them, so `</p class=\"y` stays unemitted until the `>` arrives", he.loc())
    ss = _mir.fn("DispatcherDelegate::should_stop_removing_element_content")
    sw0 = ss.blocks[0]["term"]
    r.inst("should_stop_removing|emission-disabled-first", sample={"reads": sorted(_sm.fields_read(ss))})
    first_is_flag = sw0["k"] == "switch" and ss.deep(sw0["d"]).endswith("emission_enabled")
    calls_on_true_edge = False
    if first_is_flag:
        zero_t = [x[1] for x in sw0["ts"] if x[0] == 0]      # emission_enabled == false
        calls_on_true_edge = bool(zero_t) and all(ss.dominates(zero_t[0], bi) for bi, t in ss.calls(r"should_emit_content$")) and bool(list(ss.calls(r"should_emit_content$")))
    if not first_is_flag or not calls_on_true_edge:
        r.violate("should_stop_removing|emission-disabled-first", "should_stop_removing_element_content no longer requires emission to be disabled", ss.loc())

    # ------------------------------------------------------------------ R09.7
    r = ctx.rule("R09.7", "nothing but a seen `<` marks a tag start: across a chunk boundary TagScanner::adjust_for_next_input keeps the mark only if tag_start was set; and a rewriter with nothing to capture starts in tag-scanning mode (the lexer holds whole lexemes back)", "E-MIR control dependence", floor=2)
    aj = _mir.fn("TagScanner::adjust_for_next_input[StateMachine]")
    wts = [(bi, [aj.deep(aj.blocks[sb]["term"]["d"]) for sb in _gb(aj, bi)]) for f2, bi, st in _mir.field_writes("TagScanner", "tag_start") if f2 is aj]
    r.inst("adjust|mark-kept-iff-set", sample={"writes": [g for _, g in wts]})
    if len(wts) != 1 or wts[0][1] != ["discr(self.tag_start)"]:
        r.violate("adjust|mark-kept-iff-set", f"TagScanner::adjust_for_next_input re-establishes tag_start under {[g for _, g in wts]} instead of exactly `tag_start is Some`: a chunk that ends inside a look-ahead (`<!-`, `DOCT`, `]]`) would continue with a tag-start mark nobody set, and everything up to the next `<` is held back", aj.loc())
    tn = _mir.fn("TransformStream::new")
    pn = [t for bi, t in tn.calls(r"Parser::new$")]
    r.inst("new|initial-directive")
    okd = False
    if len(pn) == 1 and pn[0]["args"][1]["k"] in ("copy", "move"):
        rp_ = tn._root_place_p(pn[0]["args"][1]["p"])
        loc_ = rp_[0] if rp_ else pn[0]["args"][1]["p"]["local"]
        defs_ = tn.defs_of(loc_)
        blocks_ = [bi for _, bi, _ in defs_]
        okd = len(defs_) == 2 and all(any("initial_capture_flags" in tn.deep(tn.blocks[sb]["term"]["d"]) for sb in _gb(tn, bi)) for bi in blocks_)
    if not okd:
        r.violate("new|initial-directive", "TransformStream::new no longer chooses the initial parser directive from initial_capture_flags().is_empty(): with no handlers the parser would start in lexer mode and hold back a leading comment / doctype / start tag until it is complete", tn.loc())

    # ------------------------------------------------------------------ R09.8
    r = ctx.rule("R09.8", "the tag scanner applies SwitchTextType / SetAllowCdata feedback itself and hands a tag to the lexer only for RequestLexeme: try_apply_tree_builder_feedback returns Some(feedback) exactly on the RequestLexeme arm", "E-MIR", floor=4)
    ta = _mir.fn("TagScanner::try_apply_tree_builder_feedback")
    sws = [(bi, b["term"]) for bi, b in enumerate(ta.blocks) if b["term"]["k"] == "switch" and ta.deep(b["term"]["d"]) == "discr(feedback)"]
    fb_adt = _mir.adt("TreeBuilderFeedback")
    vnames = [v["name"] for v in fb_adt["variants"]]
    if len(sws) != 1:
        r.inst("scanner-feedback|arms")
        r.violate("scanner-feedback|arms", "TagScanner::try_apply_tree_builder_feedback no longer dispatches on the feedback variant", ta.loc())
    else:
        sb, sw = sws[0]
        for val, tgt in sw["ts"]:
            vn = vnames[val] if val < len(vnames) else str(val)
            # what does this arm assign to the result Option before the arms join?
            region = ta.reachable_blocks(tgt, avoid=[x[1] for x in sw["ts"] if x[1] != tgt])
            somes = [1 for bi in region for st in ta.blocks[bi]["stmts"] if st["k"] == "assign" and st["rv"]["k"] == "agg" and (st["rv"].get("name") or "").endswith("Option::Some") and "feedback" == ta.deep(st["rv"]["ops"][0])] if True else []
            firstb = ta.blocks[tgt]
            arm_some = any(st["k"] == "assign" and st["rv"]["k"] == "agg" and (st["rv"].get("name") or "").endswith("Option::Some") and ta.deep(st["rv"]["ops"][0]) == "feedback" for st in firstb["stmts"])
            r.inst("scanner-feedback|" + vn, sample={"variant": vn, "hands_to_lexer": arm_some})
            want = (vn == "RequestLexeme")
            if arm_some != want:
                r.violate("scanner-feedback|" + vn, f"TagScanner::try_apply_tree_builder_feedback {'hands' if arm_some else 'does not hand'} a tag with {vn} feedback to the lexer; only RequestLexeme needs the full tag — e.g. every <script>/<style>/<textarea>/<title> start tag would be lexed and held back until its `>`", ta.loc())

    # ------------------------------------------------------------------ R09.5 (shared with C03 R03.8)
    # a RequestLexeme answer makes the tag scanner hand the whole tag to the lexer, which holds its bytes back
    # until the tag is complete: it may be given only where the specification-derived table needs the full tag
    from .c03 import rule_foreign_feedback_table, spec_tables
    rule_foreign_feedback_table(ctx, idx, spec_tables(), rid="R09.5")

    # ------------------------------------------------------------------ R09.9 (shared with C03 R03.1)
    # where a tag name ends decides when the scanner releases the bytes before it: byte classes must equal the reference
    from .c03 import rule_product
    from ..smgraph import Graph as _G9
    rule_product(ctx, _G9(aut), aut, rid="R09.9")

    # ------------------------------------------------------------------ R09.10 (generic, scoped to this property's anchors)
    from . import shared_mir as _smg
    _smg.rule_named_plumbing(ctx, _mir, "C09", "R09.10", floor=27)

    ctx.not_decided += ["schedule-independence of pending(k) as a relation between two runs", "flush_remaining_input after each parse is checked under C01 (R01.4)"]
    return ("Static analysis of the tokenizer automaton extracted from the macro-expanded StateMachine trait "
            "(%d states, %d leaves): typestate/dataflow of the tag-scanner's hold-back marks over every path of the automaton; "
            "decides the structural hold-back clauses of C09, not the run-time byte counts." % (len(aut.states), sum(len(s['leaves']) for s in aut.states.values())))


def rule_seq_mark(ctx, aut, rid="R09.3"):
    # ---------------------------------------------------------------- R09.3
    r = ctx.rule(rid, "look-ahead hold-back is bounded: every exit of a sequence arm other than the end-of-chunk break leaves sequence matching; sequences are at most 7 bytes; only enter/leave write ch_sequence_matching_start", "E-SM+E-AST", floor=11)
    nseq = set()
    for st, s in aut.states.items():
        for l in s["leaves"]:
            names = [a["name"] for a in l["acts"]]
            if "@enter_seq" not in names:
                continue
            depth = 0
            for a in names:
                if a == "@enter_seq":
                    depth += 1
                elif a == "@leave_seq":
                    depth -= 1
            is_eoc_break = l["term"]["t"] == "break" and l["last"] is False
            key = st + "|" + ("eoc" if is_eoc_break else "exit")
            if "@consume_several" in names:
                seq = tuple([l["c0"]] + [l["la"][k] for k in sorted(l["la"])])
                nseq.add((st, seq))
                if len(seq) > 7:
                    r.violate(st + "|len", f"look-ahead sequence of {len(seq)} bytes in {st} exceeds the documented few-byte hold-back", shared.state_loc(st))
            if not is_eoc_break:
                if depth != 0:
                    r.violate(key, f"a sequence arm of {st} exits without leave_ch_sequence_matching: {shared.leaf_str(st, l)}", shared.state_loc(st))
    for k in sorted(nseq):
        r.inst(k[0] + "|" + "".join(fmt_mask(m) for m in k[1]))
    return r, nseq


def rule_consumed_count(ctx, idx, rid="R09.4"):
    """finite-domain evaluation of the two get_consumed_byte_count bodies"""
    from ..tagsem import Interp, Sym
    r = ctx.rule(rid, "TagScanner::get_consumed_byte_count returns input.len() when neither mark is set, else the smaller mark; Lexer::get_consumed_byte_count returns lexeme_start (decision table over {unset, a<b, a>b, a=b} by abstract interpretation of the expanded source)", "E-AST (finite-domain abstract interpretation)", floor=10)
    f = impl_methods(idx, "TagScanner", "StateMachine").get("get_consumed_byte_count")
    if f is None:
        raise EngineError("anchor: TagScanner::get_consumed_byte_count")
    LEN = 9
    def _omin(a, b):          # Option / integer minimum: None < Some(_)
        return None if a is None or b is None else min(a, b)
    def _omax(a, b):
        return b if a is None else (a if b is None else max(a, b))
    it = Interp(idx, helpers={"min": lambda itp, args, env: min(args), "max": lambda itp, args, env: max(args),
                              ("method", "len"): lambda itp, rv, args, env: LEN,
                              ("method", "min"): lambda itp, rv, args, env: _omin(rv, args[0]),
                              ("method", "max"): lambda itp, rv, args, env: _omax(rv, args[0]),
                              ("method", "or"): lambda itp, rv, args, env: rv if rv is not None else args[0],
                              ("method", "and"): lambda itp, rv, args, env: args[0] if rv is not None else None,
                              ("method", "xor"): lambda itp, rv, args, env: (rv if args[0] is None else (args[0] if rv is None else None)),
                              ("method", "unwrap_or"): lambda itp, rv, args, env: rv if rv is not None else args[0],
                              ("method", "map_or"): lambda itp, rv, args, env: args[0] if rv is None else itp.apply_closure(args[1], [rv]),
                              ("method", "map_or_else"): lambda itp, rv, args, env: itp.apply_closure(args[0], []) if rv is None else itp.apply_closure(args[1], [rv]),
                              ("method", "map"): lambda itp, rv, args, env: None if rv is None else itp.apply_closure(args[0], [rv]),
                              ("method", "and_then"): lambda itp, rv, args, env: None if rv is None else itp.apply_closure(args[0], [rv]),
                              ("method", "unwrap_or_else"): lambda itp, rv, args, env: rv if rv is not None else itp.apply_closure(args[0], []),
                              ("method", "or_else"): lambda itp, rv, args, env: rv if rv is not None else itp.apply_closure(args[0], []),
                              ("method", "unwrap_or_default"): lambda itp, rv, args, env: rv if rv is not None else 0,
                              ("method", "is_some"): lambda itp, rv, args, env: rv is not None,
                              ("method", "is_none"): lambda itp, rv, args, env: rv is None})
    undecidable = []
    for ts in (None, 3, 5, 4):
        for sq in (None, 5, 3, 4):
            key = "scanner|tag_start=%s|seq=%s" % (ts, sq)
            want = LEN if ts is None and sq is None else min(x for x in (ts, sq) if x is not None)
            try:
                v = it.call_fn(f, [Sym("input")], self_env={"self.tag_start": ts, "self.ch_sequence_matching_start": sq})
            except EngineError as e:
                v = "not evaluable (%s)" % str(e)[:60]
            if not isinstance(v, int) or isinstance(v, bool):
                undecidable.append((ts, sq, repr(v)[:80]))
                r.inst(key, nontrivial=False)
                continue
            r.inst(key, nontrivial=(ts is not None and sq is not None), sample={"tag_start": ts, "seq_start": sq, "consumed": v} if (ts, sq) in ((None, None), (5, 3), (3, 5)) else None)
            if v != want:
                r.violate(key, f"TagScanner::get_consumed_byte_count with tag_start={ts}, ch_sequence_matching_start={sq}, input.len()={LEN} yields {v}, expected {want}: bytes from the earlier mark on must stay buffered (otherwise they are released and the lexer later starts in the middle of a tag), and nothing else", "src/parser/tag_scanner/mod.rs")
    if undecidable and not r.violations:
        raise EngineError(rid + ": TagScanner::get_consumed_byte_count could not be evaluated over the finite domain (%s)" % (undecidable[0],))
    lx = impl_methods(idx, "Lexer", "StateMachine").get("get_consumed_byte_count")
    if lx is None:
        raise EngineError("anchor: Lexer::get_consumed_byte_count")
    r.inst("lexer")
    try:
        v = Interp(idx).call_fn(lx, [Sym("input")], self_env={"self.lexeme_start": 7})
    except EngineError as e:
        v = "not evaluable (%s)" % str(e)[:60]
    if not isinstance(v, (int, str)) or isinstance(v, bool):
        v = "not an integer (%s)" % repr(v)[:60]
    if v != 7:
        r.violate("lexer", f"Lexer::get_consumed_byte_count yields {v} for lexeme_start=7: with handlers exactly the unfinished token must be held back", "src/parser/lexer/mod.rs")
    return r


def rule_text_released(ctx, aut, rid="R09.1"):
    # ---------------------------------------------------------------- R09.1
    r = ctx.rule(rid, "each of the six text states releases text at end of chunk: an EOC leaf calls emit_text before break_on_end_of_input", "E-SM", floor=6)
    for tname, st in sorted(aut.text_state_map.items()):
        leaves = [l for l in aut.leaves(st) if l["c0"] == (1 << NONE) and l["last"] is False]
        key = st
        r.inst(key, sample={"state": st, "eoc_leaves": len(leaves)})
        ok = leaves and all(l["term"]["t"] == "break" and any(a["name"] == "emit_text" and a.get("try") for a in l["acts"]) for l in leaves)
        if not ok:
            r.violate(key, f"text state {st} has no end-of-chunk arm that emits the pending text (text would be held back until the next '<')", shared.state_loc(st))

