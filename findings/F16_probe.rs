use lol_html::{element, HtmlRewriter, Settings};
use std::time::Instant;
#[test]
fn probe() {
  for n in [10_000usize, 20_000, 40_000, 80_000] {
    let mut rw = HtmlRewriter::new(Settings::new().append_element_content_handler(element!("div", |el| { el.after("x", lol_html::html_content::ContentType::Text); Ok(()) })), |_: &[u8]| {});
    let open = "<div>".repeat(n); let close = "</div>".repeat(n);
    let t0 = Instant::now();
    rw.write(open.as_bytes()).unwrap();
    let t1 = Instant::now();
    rw.write(close.as_bytes()).unwrap();
    rw.end().unwrap();
    let t2 = Instant::now();
    println!("n={} open={:?} close={:?}", n, t1-t0, t2-t1);
  }
}
