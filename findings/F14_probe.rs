use lol_html::{element, HtmlRewriter, Settings};
use std::cell::RefCell; use std::rc::Rc;
#[test]
fn probe() {
  for html in ["<frameset><frame src=a><frame src=b></frameset>", "<p><param name=a><param name=b></p>"] {
        let seen = Rc::new(RefCell::new(vec![]));
        let s2 = seen.clone(); let s3 = seen.clone();
        let mut rw = HtmlRewriter::new(Settings::new()
            .append_element_content_handler(element!("frame > frame", move |el| { s2.borrow_mut().push(format!("NESTED {}", el.tag_name())); Ok(()) }))
            .append_element_content_handler(element!("frameset > frame, p > param", move |el| { s3.borrow_mut().push(format!("child {} chc={}", el.tag_name(), el.can_have_content())); Ok(()) })), |_: &[u8]| {});
        let r = rw.write(html.as_bytes()).and_then(|_| rw.end());
        println!("{} {:?} {:?}", html, r.is_ok(), seen.borrow());
  }
}
