use lol_html::{element, HtmlRewriter, Settings};
use std::cell::RefCell; use std::rc::Rc;
#[test]
fn probe() {
  let html = "<p>x</p><input disabled class=a>";
  for split in [0usize, 8, 3] {
        let seen = Rc::new(RefCell::new(vec![]));
        let s2 = seen.clone();
        let mut rw = HtmlRewriter::new(Settings::new()
            .append_element_content_handler(element!("input", move |el| { for a in el.attributes() { s2.borrow_mut().push(format!("{} name={:?} value={:?}", a.name(), a.name_source_location().map(|l| l.bytes()), a.value_source_location().map(|l| l.bytes()))); } Ok(()) })), |_: &[u8]| {});
        rw.write(&html.as_bytes()[..split]).unwrap(); rw.write(&html.as_bytes()[split..]).unwrap(); rw.end().unwrap();
        println!("split={} {:?}", split, seen.borrow());
  }
}
