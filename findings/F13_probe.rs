use lol_html::{element, HtmlRewriter, Settings};
use std::cell::RefCell; use std::rc::Rc;
#[test]
fn probe() {
  for html in ["<svg/><textarea><b>x</b></textarea><p>", "<svg></svg><textarea><b>x</b></textarea><p>", "<math/><style><i></style><p>", "<div><svg/><![CDATA[<u>]]></div>"] {
    for strict in [false, true] {
        let seen = Rc::new(RefCell::new(vec![]));
        let s2 = seen.clone();
        let mut rw = HtmlRewriter::new(Settings::new().append_element_content_handler(element!("*", move |el| { s2.borrow_mut().push(format!("{}:{}", el.tag_name(), el.namespace_uri())); Ok(()) })).with_strict(strict), |_: &[u8]| {});
        let r = rw.write(html.as_bytes()).and_then(|_| rw.end());
        println!("{} strict={} {:?} {:?}", html, strict, r.is_ok(), seen.borrow());
    }
  }
}
